package period

import "testing"

// F8: week patterns of the year 9999 with a week number from 53 on crashed (UNREPRESENTABLE_DATE) instead of
// being rejected. Found as klog/service/period.NewWeekFromString#pre((*date).PlusDays):1, counterexample "9999-W85".
func TestFindingF8WeekPattern(t *testing.T) {
	for _, s := range []string{"9999-W53", "9999-W85", "9999-W99"} {
		func() {
			defer func() {
				if r := recover(); r != nil {
					t.Errorf("%s: panic %v", s, r)
				}
			}()
			if _, err := NewWeekFromString(s); err == nil {
				t.Errorf("%s: accepted", s)
			}
		}()
	}
	// (Period() of that last week is finding F7: its Sunday is not representable)
	if w, err := NewWeekFromString("9999-W52"); err != nil || w.date.ToString() != "9999-12-27" {
		t.Errorf("9999-W52 must denote the week of 9999-12-27")
	}
}
