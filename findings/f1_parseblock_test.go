package txt

// Witness for finding F1 (properties C06/C08): obligation txt.ParseBlock#slice:1
// A text whose last byte is not valid UTF-8: the loop computes the end of the line as
// i + len(string(char)) = i + 3 (U+FFFD re-encoded) although only one byte was consumed.

import "testing"

func TestGovcFindingF1(t *testing.T) {
	defer func() {
		if r := recover(); r != nil {
			t.Fatalf("ParseBlock panicked: %v", r)
		}
	}()
	ParseBlock("\xff", 0)
}
