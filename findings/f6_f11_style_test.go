package reconciling

import (
	"testing"

	"github.com/jotaen/klog/klog"
)

// F6: a tie between two styles is decided by map iteration order: the same input yields different results.
func TestFindingF6TallyUpTie(t *testing.T) {
	seen := map[string]int{}
	for i := 0; i < 400; i++ {
		e := newElection[string]()
		e.vote(styleProp[string]{"  ", true})
		e.vote(styleProp[string]{"\t", true})
		seen[e.tallyUp("    ")]++
	}
	if len(seen) != 1 {
		t.Errorf("tallyUp is not a function of its input: %v", seen)
	}
}

// F11: the indentation of a whitespace-only line before the record is taken as the record's own style;
// the entry is then inserted with an indentation the record does not use and the result is rejected.
func TestFindingF11BlankLineIndentation(t *testing.T) {
	rs, bs := parseOrPanic("\t\n2020-01-01\n  1h\n")
	rec := NewReconcilerAtRecord(klog.Ɀ_Date_(2020, 1, 1))(rs, bs)
	s, _ := klog.NewEntrySummary("")
	s[0] = "2h"
	if err := rec.AppendEntry(s); err != nil {
		t.Fatal(err)
	}
	res, err := rec.MakeResult()
	if err != nil {
		t.Fatalf("valid edit rejected: %v (indentation taken: %q)", err, rec.style.indentation.Get())
	}
	if res.AllSerialised != "\t\n2020-01-01\n  1h\n  2h\n" {
		t.Errorf("got %q", res.AllSerialised)
	}
}
