package util

// Witness for finding F4 (property C17): obligation util.(*AtDateAndTimeArgs).AtTime#ensures:2
// `--yesterday --round 30m` at 23:50: the rounded time 24:00 shifted by +24h is not representable;
// the error of Plus is dropped and AtTime returns (nil, nil).

import (
	"testing"
	gotime "time"

	"github.com/jotaen/klog/klog/app"
	tf "github.com/jotaen/klog/klog/app/cli/terminalformat"
	"github.com/jotaen/klog/klog/service"
)

func TestGovcFindingF4(t *testing.T) {
	r, _ := service.NewRounding(30)
	args := &AtDateAndTimeArgs{Round: r, AtDateArgs: AtDateArgs{Yesterday: true}}
	now := gotime.Date(2024, 3, 10, 23, 50, 0, 0, gotime.UTC)
	res, err := args.AtTime(now, app.NewDefaultConfig(tf.COLOUR_THEME_DARK))
	if err == nil && res == nil {
		t.Fatalf("AtTime returned (nil, nil)")
	}
}
