package parser

// Witnesses for findings F2 and F13 (property C10): obligations parser.parse#pre(NewError):33/34 (parser.go:246)
// and parser.parse#pre(NewError):40 (parser.go:120). Every reported error must name an existing line, quote it,
// and stay within it (at most one character past its end).

import (
	"strings"
	"testing"
	"unicode/utf8"
)

func govcCheckErrors(t *testing.T, text string) {
	defer func() {
		if r := recover(); r != nil {
			t.Errorf("%q: rendering the errors panicked: %v", text, r)
		}
	}()
	_, _, errs := NewSerialParser().Parse(text)
	nLines := len(strings.Split(strings.TrimSuffix(text, "\n"), "\n"))
	for _, e := range errs {
		if e.LineNumber() < 1 || e.LineNumber() > nLines {
			t.Errorf("%q: error on line %d of a %d-line text", text, e.LineNumber(), nLines)
			continue
		}
		want := strings.Split(text, "\n")[e.LineNumber()-1]
		if e.LineText() != want {
			t.Errorf("%q: error quotes %q but line %d is %q", text, e.LineText(), e.LineNumber(), want)
		}
		if e.Position()+e.Length() > utf8.RuneCountInString(e.LineText())+1 {
			t.Errorf("%q: error spans %d+%d characters on a line of %d characters", text, e.Position(), e.Length(), utf8.RuneCountInString(e.LineText()))
		}
	}
}

func TestGovcFindingF2(t *testing.T) {
	govcCheckErrors(t, "2020-01-01\n    1h\n         ")
	govcCheckErrors(t, "2020-01-01\n    1h\n         \n    2h")
}

func TestGovcFindingF13(t *testing.T) {
	govcCheckErrors(t, "2020-01-01\n    1h\n   äöü\n")
}
