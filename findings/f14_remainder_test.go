package txt

// Witness for finding F14 (properties C01/C14): obligation txt.(*Parseable).Remainder#ensures:2
// Remainder() must return the rest of the line, but it stops at the first U+FFFD character
// (an ordinary, valid character; also what invalid UTF-8 bytes decode to), silently truncating entry summaries.

import "testing"

func TestGovcFindingF14(t *testing.T) {
	p := NewParseable(NewLineFromString("see � here #tag"), 0)
	r := p.Remainder()
	if r.Length() != p.RemainingLength() {
		t.Fatalf("Remainder returned %d of %d remaining characters: %q", r.Length(), p.RemainingLength(), r.ToString())
	}
}
