package period

// Witness of finding F7 (property C15): Week.Period() panics for the dates whose Monday-Sunday week reaches outside
// the representable years 0000..9999. Run with:
//   go test -overlay <overlay mapping klog/service/period/zz_f7_test.go to this file> -vet=off -run TestF7 ./klog/service/period/

import (
	"testing"

	"github.com/jotaen/klog/klog"
)

func TestF7WeekPeriodPanics(t *testing.T) {
	for _, ymd := range [][3]int{{0, 1, 1}, {0, 1, 2}, {9999, 12, 27}, {9999, 12, 28}, {9999, 12, 29}, {9999, 12, 30}, {9999, 12, 31}} {
		d, err := klog.NewDate(ymd[0], ymd[1], ymd[2])
		if err != nil {
			t.Fatal(err)
		}
		func() {
			defer func() {
				if r := recover(); r == nil {
					t.Errorf("%v: no panic (finding F7 no longer reproduces)", ymd)
				} else {
					t.Logf("%v: Week.Period() panicked: %v", ymd, r)
				}
			}()
			NewWeekFromDate(d).Period()
		}()
	}
	// the neighbouring dates are fine
	for _, ymd := range [][3]int{{0, 1, 3}, {9999, 12, 26}} {
		d, _ := klog.NewDate(ymd[0], ymd[1], ymd[2])
		p := NewWeekFromDate(d).Period()
		t.Logf("%v: %s .. %s", ymd, p.Since().ToString(), p.Until().ToString())
	}
}
