package cli

import (
	"testing"

	"github.com/jotaen/klog/klog/app/cli/util"
	"github.com/jotaen/klog/klog/service"
)

// F5: `klog stop --round 30m` at 23:50, no record for today, open range in yesterday's record: the current time is
// rounded to 24:00 (= 0:00>), the fallback to yesterday's record adds 24h, which is not representable; the error of
// Plus is dropped and the nil time crashes the command.
func TestFindingF5StopFallback(t *testing.T) {
	r, _ := service.NewRounding(30)
	defer func() {
		if p := recover(); p != nil {
			t.Fatalf("klog stop crashed: %v", p)
		}
	}()
	state, err := NewTestingContext()._SetRecords(`
1920-02-02
	22:22-?
`)._SetNow(1920, 2, 3, 23, 50)._Run((&Stop{AtDateAndTimeArgs: util.AtDateAndTimeArgs{Round: r}}).Run)
	if err == nil {
		t.Errorf("expected an error, file is now %q", state.writtenFileContents)
	}
}
