#!/bin/sh
# Builds /verif/bin/govc offline from /verif/govc (go1.26.8, x/tools v0.50.0 from the module cache).
set -e
cd "$(dirname "$0")/govc"
export GOFLAGS=-mod=mod GOPROXY=off GOSUMDB=off GOTOOLCHAIN=local
mkdir -p ../bin
go1.26.8 build -o ../bin/govc ./cmd/govc
