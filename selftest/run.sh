#!/bin/sh
# Must-fail corpus: every patch breaks one property while compiling; the named check must report a violation
# whose obligation matches. Each patch is applied to a scratch copy of /repo outside /repo and /verif.
cd "$(dirname "$0")"
fail=0
while IFS="$(printf '\t')" read -r patch prop expect; do
  [ -z "$patch" ] && continue
  tmp=$(mktemp -d /tmp/govc-selftest.XXXXXX)
  cp -r /repo/. "$tmp"/ 2>/dev/null
  if ! (cd "$tmp" && patch -p1 -s < "$OLDPWD/$patch"); then echo "SELFTEST $patch: patch does not apply"; fail=1; rm -rf "$tmp"; continue; fi
  out=$(GOVC_ROOT="$tmp/.verif" sh -c "mkdir -p $tmp/.verif && cp ../props.json ../known_findings.jsonl ../undecided.jsonl $tmp/.verif/ && ../bin/govc check -p $prop -repo $tmp" 2>&1)
  if echo "$out" | grep "^FAILED" | grep -qF "$expect"; then echo "SELFTEST $patch: detected ($prop, $expect)"; else echo "SELFTEST $patch: MISSED ($prop, expected $expect)"; echo "$out" | tail -3; fail=1; fi
  rm -rf "$tmp"
done < "${1:-expected.tsv}"
exit $fail
