#!/bin/sh
# Must-fail corpus: every patch breaks one property while compiling; the named check must report a violation
# whose obligation matches. Each patch is applied to a scratch copy of /repo outside /repo and /verif.
# usage: run.sh [expected.tsv] [parallelism]
cd "$(dirname "$0")"
list="${1:-expected.tsv}"
par="${2:-1}"
one() {
  patch=$1; prop=$2; expect=$3
  tmp=$(mktemp -d /tmp/govc-selftest.XXXXXX)
  cp -r /repo/. "$tmp"/ 2>/dev/null
  if ! (cd "$tmp" && patch -p1 -s < "$OLDPWD/$patch"); then echo "SELFTEST $patch: patch does not apply"; rm -rf "$tmp"; return 1; fi
  out=$(GOVC_ROOT="$tmp/.verif" sh -c "mkdir -p $tmp/.verif && cp ../props.json ../known_findings.jsonl ../undecided.jsonl $tmp/.verif/ && ../bin/govc check -p $prop -repo $tmp" 2>&1)
  rm -rf "$tmp"
  if echo "$out" | grep "^FAILED" | grep -qF "$expect"; then echo "SELFTEST $patch: detected ($prop, $expect)"; return 0; fi
  echo "SELFTEST $patch: MISSED ($prop, expected $expect)"; echo "$out" | grep "^FAILED\|^SKIPPED" | cut -c1-200 | head -4; echo "$out" | tail -1
  return 1
}
if [ "$par" = "1" ]; then
  fail=0
  while IFS="$(printf '\t')" read -r patch prop expect; do
    [ -z "$patch" ] && continue
    one "$patch" "$prop" "$expect" || fail=1
  done < "$list"
  exit $fail
fi
# parallel mode: one background job per line, at most $par at a time
fail=0
n=0
while IFS="$(printf '\t')" read -r patch prop expect; do
  [ -z "$patch" ] && continue
  ( one "$patch" "$prop" "$expect" ) &
  n=$((n+1))
  if [ $((n % par)) -eq 0 ]; then wait; fi
done < "$list"
wait
