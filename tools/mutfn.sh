#!/bin/sh
# usage: mutfn.sh <file relative to repo> <sed expression> <function substring>...
# applies a mutation to a scratch copy of /repo and verifies the named functions there (must-fail experiments)
f=$1; e=$2; shift 2
tmp=$(mktemp -d /tmp/mutfn.XXXXXX)
cp -r /repo/. $tmp/
sed -i "$e" $tmp/$f
(cd $tmp && git diff --stat | tail -1)
/verif/bin/govc fn -repo $tmp -t 10000 "$@" 2>&1 | grep -v "^loaded" | cut -c1-260
rm -rf $tmp
