#!/bin/sh
# usage: intake_seed.sh <seed-id> [property]  — move a sub-agent's result into seeded/<id>/, confirm it, remove the worktree
id=$1; prop=${2:-${id%%-*}}
src=/tmp/seedout-$id
[ -f $src/patch.diff ] || { echo "no patch for $id"; exit 1; }
mkdir -p /verif/seeded/$id
cp $src/patch.diff $src/demo_test.go $src/meta.json /verif/seeded/$id/
git -C /repo worktree remove --force /tmp/seedwt-$id 2>/dev/null
/verif/tools/confirm_seed.sh /verif/seeded/$id $prop > /verif/seeded/$id/confirm.log 2>&1
cat /verif/seeded/$id/confirm.log
