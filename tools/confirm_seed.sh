#!/bin/sh
# usage: confirm_seed.sh <out-dir with patch.diff, demo_test.go, meta.json> <property>
# Confirms a seeded change in a scratch copy: suite passes with the patch, demo fails with it and passes without;
# then runs the property's check against the patched copy.
out=$1; prop=$2
tmp=$(mktemp -d /tmp/seedconf.XXXXXX)
cp -r /repo/. $tmp/
cd $tmp
demo_dir=$(python3 -c "import json;print(json.load(open('$out/meta.json'))['demo_dir'])")
cp $out/demo_test.go $tmp/$demo_dir/zz_seed_demo_test.go
export GOFLAGS=-mod=mod GOPROXY=off
echo "== demo WITHOUT patch (must pass)"; go test -vet=off -count=1 ./$demo_dir/ 2>&1 | tail -2
git apply $out/patch.diff || { echo "PATCH DOES NOT APPLY"; rm -rf $tmp; exit 1; }
echo "== demo WITH patch (must fail)"; go test -vet=off -count=1 ./$demo_dir/ 2>&1 | grep -E "^(--- FAIL|FAIL|ok|panic)" | head -4
rm $tmp/$demo_dir/zz_seed_demo_test.go
echo "== suite WITH patch (must pass)"; go test -vet=off -count=1 ./... 2>&1 | grep -v "^ok\|no test files" | head -5; echo "(end of suite failures)"
echo "== check $prop on patched copy"
mkdir -p $tmp/.verif && cp /verif/props.json /verif/known_findings.jsonl /verif/undecided.jsonl $tmp/.verif/
GOVC_ROOT=$tmp/.verif /verif/bin/govc check -p $prop -repo $tmp 2>&1 | grep -E "^(FAILED|VIOLATION|C[0-9]+:)" | cut -c1-220 | head -8
rm -rf $tmp
