#!/usr/bin/env python3
"""usage: python3-vt tools/validate_evidence.py [evidence dir]
Checks every evidence file the way the external runner does before it is committed: valid against
EVIDENCE.schema.json, one file per claimed property, level as in MANIFEST.json, discharged == obligations for a
proof-level claim, no violation recorded. Exit 1 on the first problem found in any file (all problems are printed)."""
import json, os, sys

root = os.path.dirname(os.path.dirname(os.path.abspath(__file__)))
evdir = sys.argv[1] if len(sys.argv) > 1 else os.path.join(root, "evidence")
schema = json.load(open("/root/.vp/EVIDENCE.schema.json"))
manifest = json.load(open(os.path.join(root, "MANIFEST.json")))
try:
    import jsonschema
except ImportError:
    print("jsonschema missing: run with python3-vt", file=sys.stderr)
    sys.exit(2)

bad = 0
for c in manifest["checks"]:
    pid = c["property_id"]
    path = os.path.join(evdir, pid + ".json")
    if not os.path.exists(path):
        print(pid, "no evidence file")
        bad += 1
        continue
    ev = json.load(open(path))
    errs = [e.message for e in jsonschema.Draft202012Validator(schema).iter_errors(ev)]
    cov = ev.get("coverage", {})
    if ev.get("property_id") != pid:
        errs.append("property_id mismatch")
    if ev.get("level") != c.get("level_claimed", {}).get("category"):
        errs.append("level %r differs from MANIFEST %r" % (ev.get("level"), c.get("level_claimed", {}).get("category")))
    if ev.get("level") == "proof" and cov.get("discharged") != cov.get("obligations"):
        errs.append("discharged (%s) != obligations (%s)" % (cov.get("discharged"), cov.get("obligations")))
    if ev.get("violations", 0) != 0:
        errs.append("records %s violation(s): not a run on which the property held" % ev.get("violations"))
    if errs:
        bad += 1
        print(pid, "INVALID:", "; ".join(errs))
    else:
        print(pid, "ok", cov.get("obligations"), "obligations", "%.0fs" % ev.get("wall_s", 0))
sys.exit(1 if bad else 0)
