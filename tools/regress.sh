#!/bin/sh
# usage: regress.sh [parallelism] — runs every claimed property's quick check on /repo, prints one line per property
par=${1:-4}
out=${REGRESS_OUT:-/tmp/regress}
mkdir -p $out
ids=$(python3 -c "import json;print(' '.join(c['property_id'] for c in json.load(open('/verif/MANIFEST.json'))['checks']))" 2>/dev/null)
echo $ids | tr ' ' '\n' | xargs -P $par -I{} sh -c "/verif/check {} quick > $out/{}.log 2>&1; echo {} exit=\$? \$(tail -1 $out/{}.log | cut -c1-120)"
