#!/usr/bin/env python3
# usage: mk_seed_prompt.py <property id> <seed id, e.g. C12-3> [text of what earlier seeds already did, to avoid repeats]
# Fills tools/seed_prompt.tmpl from properties.jsonl and writes /tmp/seedout-<seed id>/prompt.txt (prints the path).
import json, sys, os
pid, sid = sys.argv[1], sys.argv[2]
avoid = sys.argv[3] if len(sys.argv) > 3 else ""
prop = None
for line in open(os.path.join(os.path.dirname(__file__), "..", "properties.jsonl")):
    line = line.strip()
    if line:
        p = json.loads(line)
        if p["id"] == pid:
            prop = p
t = open(os.path.join(os.path.dirname(__file__), "seed_prompt.tmpl")).read()
if avoid:
    avoid = "\n   Earlier changes already tried (do something DIFFERENT, in a different function or of a different kind): " + avoid
out = t.format(wt="/tmp/seedwt-" + sid, id=pid, title=prop["title"], statement=prop["statement"],
               quant=prop["quantifier"]["text"], files=", ".join(prop["anchors"]["files"]), avoid=avoid,
               idn=sid.replace("-", "_"), sid=sid)
os.makedirs("/tmp/seedout-" + sid, exist_ok=True)
path = "/tmp/seedout-" + sid + "/prompt.txt"
open(path, "w").write(out)
print(path)
