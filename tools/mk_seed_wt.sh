#!/bin/sh
# usage: mk_seed_wt.sh <id>  — scratch worktree of /repo for a seed-writing sub-agent, with the contract comment files removed
# (so that what the sub-agent writes is independent of what the checks can detect). Prints the path.
id=$1
wt=/tmp/seedwt-$id
git -C /repo worktree add -q --detach $wt HEAD || exit 1
cd $wt
git rm -q $(git ls-files '*contracts_verif.go')
git -c user.name=scratch -c user.email=scratch@localhost commit -qm "scratch: strip contract comment files"
mkdir -p /tmp/seedout-$id
echo $wt
