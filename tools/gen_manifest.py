#!/usr/bin/env python3
"""Regenerates /verif/MANIFEST.json from props.json, claims.json and properties.jsonl."""
import json, subprocess, os
root = os.path.dirname(os.path.dirname(os.path.abspath(__file__)))
props = [json.loads(l) for l in open(os.path.join(root, 'properties.jsonl'))]
cfg = json.load(open(os.path.join(root, 'props.json')))
claims = json.load(open(os.path.join(root, 'claims.json')))
commits = subprocess.run(['git', '-C', '/repo', 'log', '--format=%H %s'], capture_output=True, text=True).stdout.strip().split('\n')
hooks = [c.split()[0] for c in commits if ' verif:' in ' ' + c.split(' ', 1)[1][:8] or c.split(' ', 1)[1].startswith('verif:')]
checks, na = [], []
for p in props:
    pid = p['id']
    if pid in claims['claimed']:
        c = claims['claimed'][pid]
        checks.append({
            "property_id": pid,
            "quick_cmd": f"./check {pid} quick",
            "thorough_cmd": f"./check {pid} thorough",
            "evidence_file": f"/verif/evidence/{pid}.json",
            "replay_cmd_template": "bin/govc replay {path}",
            "engine": "govc",
            "level_claimed": {"category": c.get("category", "proof"), "text": c["text"], "design_ref": c.get("design_ref", "DESIGN.md §3")},
            "level_note": c["note"],
            "technique": c.get("technique", "contract-based deductive verification: VCs generated from go/ssa of the real functions against //@ contracts, discharged by z3/cvc5"),
        })
    else:
        na.append({"property_id": pid, "reason": claims['not_applicable'].get(pid, "not claimed yet: contracts for this property are still being written (engine: govc)")})
m = {
    "version": 1,
    "setup_cmd": "./build.sh",
    "hooks": {
        "guard": "verif",
        "enable": "go/packages loads /repo with -tags verif; the tag only adds comment-only contract files (contracts_verif.go), no executable code",
        "baseline_off_cmd": "cd /repo && GOFLAGS=-mod=mod GOPROXY=off go test -vet=off -count=1 ./...",
        "source_commits": hooks,
        "add_only": True,
    },
    "engines": [{"name": "govc", "path": "/verif/govc", "serves_properties": sorted(claims['claimed'].keys()),
                 "kind_free_text": "self-built deductive verifier for Go: weakest-precondition style VC generation over go/ssa (state merging, loop cut points with invariants, calls by contract, Boogie-style heap), contracts as //@ comments behind build tag verif, obligations discharged by z3 5.1.0 / z3 4.8.12 / cvc5 1.0; regex-language equivalence via z3 RegLan over a compressed alphabet"}],
    "checks": checks,
    "notes": "See DESIGN.md. Known findings: known_findings.jsonl. Properties not listed under checks are in not_applicable with a reason.",
    "not_applicable": na,
}
json.dump(m, open(os.path.join(root, 'MANIFEST.json'), 'w'), indent=1)
print("checks:", [c['property_id'] for c in checks])
