package main

import (
	"fmt"
	"os"
	"strings"

	"golang.org/x/tools/go/packages"
	"golang.org/x/tools/go/ssa"
	"golang.org/x/tools/go/ssa/ssautil"
)

func main() {
	cfg := &packages.Config{Mode: packages.LoadAllSyntax, Dir: "/repo", BuildFlags: []string{"-tags=verif"}}
	pkgs, err := packages.Load(cfg, "./klog/...")
	if err != nil {
		panic(err)
	}
	prog, _ := ssautil.AllPackages(pkgs, ssa.InstantiateGenerics)
	prog.Build()
	want := os.Args[1:]
	for fn := range ssautil.AllFunctions(prog) {
		name := fn.String()
		for _, w := range want {
			if strings.Contains(name, w) {
				fmt.Println("=====", name)
				fn.WriteTo(os.Stdout)
			}
		}
	}
}
