package main

import "fmt"

func cmdRegex(args []string)    { fmt.Println("not implemented") }
func cmdSelftest(args []string) { fmt.Println("not implemented") }
