package main

import "fmt"

func cmdCheck(args []string)    { fmt.Println("not implemented") }
func cmdList(args []string)     { fmt.Println("not implemented") }
func cmdRegex(args []string)    { fmt.Println("not implemented") }
func cmdReplay(args []string)   { fmt.Println("not implemented") }
func cmdSelftest(args []string) { fmt.Println("not implemented") }
