package main

// Evaluation of contract expressions (Go expression syntax) to symbolic values.

import (
	"fmt"
	"go/ast"
	"go/constant"
	"go/token"
	"go/types"
	"strconv"
	"strings"

	"golang.org/x/tools/go/ssa"
)

type evaluator struct {
	specName   string           // innermost enclosing spec function
	specParams map[string]*Val  // its actual parameters
	sumDepth int
	lazy  map[string]ast.Expr
	x     *Exec
	fr    *Frame
	st    *State // private working state (may be extended by pure calls)
	over  map[ssa.Value]*Val
	lets  map[string]*Val
	blk   *ssa.BasicBlock
	midBlock bool // evaluating a cut inside the block: values already computed in this block are visible
	owned bool
}

func (ev *evaluator) own() {
	if !ev.owned {
		ev.st = ev.st.clone()
		ev.owned = true
	}
}

func (ev *evaluator) errorf(format string, a ...any) {
	unsupportedf("contract expression: "+format, a...)
}

var intT = types.Typ[types.Int]
var boolT = types.Typ[types.Bool]

func (ev *evaluator) eval(e ast.Expr) *Val {
	ev.x.pure++
	defer func() { ev.x.pure-- }()
	return ev.ev(e)
}

func (ev *evaluator) ev(e ast.Expr) *Val {
	switch n := e.(type) {
	case *ast.ParenExpr:
		return ev.ev(n.X)
	case *ast.BasicLit:
		switch n.Kind {
		case token.INT:
			v, err := strconv.ParseInt(n.Value, 0, 64)
			if err != nil {
				return &Val{T: IntLitStr(n.Value), Typ: intT}
			}
			return &Val{T: IntLit(v), Typ: intT}
		case token.STRING:
			s, _ := strconv.Unquote(n.Value)
			return &Val{T: StrLit(s), Typ: types.Typ[types.String]}
		case token.CHAR:
			s, _ := strconv.Unquote(n.Value)
			r := []rune(s)
			return &Val{T: IntLit(int64(r[0])), Typ: types.Typ[types.Rune]}
		}
	case *ast.Ident:
		return ev.ident(n.Name)
	case *ast.UnaryExpr:
		v := ev.ev(n.X)
		switch n.Op {
		case token.NOT:
			return &Val{T: Not(v.T), Typ: boolT}
		case token.SUB:
			return &Val{T: Neg(v.T), Typ: v.Typ}
		case token.ADD:
			return v
		case token.AND:
			return v
		}
	case *ast.BinaryExpr:
		switch n.Op {
		case token.LAND:
			a := ev.ev(n.X)
			b := ev.ev(n.Y)
			return &Val{T: And(a.T, b.T), Typ: boolT}
		case token.LOR:
			a := ev.ev(n.X)
			b := ev.ev(n.Y)
			return &Val{T: Or(a.T, b.T), Typ: boolT}
		}
		a := ev.ev(n.X)
		b := ev.ev(n.Y)
		a, b = ev.coerce(a, b)
		rt := a.Typ
		switch n.Op {
		case token.EQL, token.NEQ, token.LSS, token.LEQ, token.GTR, token.GEQ:
			rt = boolT
		}
		ev.own()
		return ev.x.binopVals(ev.st, n.Op, a, b, rt, token.NoPos)
	case *ast.SelectorExpr:
		return ev.selector(n)
	case *ast.IndexExpr:
		base := ev.ev(n.X)
		idx := ev.ev(n.Index)
		switch bt := base.Typ.Underlying().(type) {
		case *types.Slice:
			return &Val{T: ev.readElemQ(bt.Elem(), base.T, idx.T), Typ: bt.Elem()}
		case *types.Basic:
			if hasFreeBound(idx.T) {
				return &Val{T: ev.x.atFun(ev.st, strArr(base.T), strOff(base.T), idx.T), Typ: types.Typ[types.Byte]}
			}
			if !hasFreeBound(base.T) {
				ev.x.addReadInterest(ev.st, strArr(base.T), strOff(base.T), idx.T)
			}
			return &Val{T: strAt(base.T, idx.T), Typ: types.Typ[types.Byte]}
		case *types.Map:
			_, _, doms, vals := ev.x.mapSorts(bt)
			dom := ev.x.ctx.hread(ev.st, mapDomName(bt), doms, base.T)
			val := ev.x.ctx.hread(ev.st, mapValName(bt), vals, base.T)
			kk := idx.T
			if typeHasString(bt.Key()) {
				ev.own()
				kk = ev.x.mapKey(ev.st, idx.T, bt.Key())
			}
			return &Val{T: Ite(And(Neq(base.T, IntLit(0)), Select(dom, kk)), Select(val, kk), TE.zeroValue(bt.Elem())), Typ: bt.Elem()}
		case *types.Array:
			return &Val{T: Select(base.T, idx.T), Typ: bt.Elem()}
		}
		ev.errorf("index on %s", base.Typ)
	case *ast.SliceExpr:
		base := ev.ev(n.X)
		lo := IntLit(0)
		if n.Low != nil {
			lo = ev.ev(n.Low).T
		}
		switch base.Typ.Underlying().(type) {
		case *types.Slice:
			hi := slLen(base.T)
			if n.High != nil {
				hi = ev.ev(n.High).T
			}
			return &Val{T: mkSlice(slRef(base.T), Add(slOff(base.T), lo), Sub(hi, lo)), Typ: base.Typ}
		case *types.Basic:
			hi := strLen(base.T)
			if n.High != nil {
				hi = ev.ev(n.High).T
			}
			return &Val{T: mkStr(strArr(base.T), Add(strOff(base.T), lo), Sub(hi, lo)), Typ: base.Typ}
		}
		ev.errorf("slice expression on %s", base.Typ)
	case *ast.TypeAssertExpr:
		v := ev.ev(n.X)
		t := ev.resolveType(n.Type)
		ev.own()
		if isInterface(t) {
			return &Val{T: v.T, Typ: t}
		}
		return ev.x.ifaceAs(ev.st, v.T, t)
	case *ast.StarExpr:
		v := ev.ev(n.X)
		ev.own()
		p := ev.x.ptrOf(v)
		return &Val{T: ev.x.load(ev.st, p), Typ: p.targetType()}
	case *ast.CallExpr:
		return ev.callExpr(n)
	case *ast.CompositeLit:
		t := ev.resolveType(n.Type)
		st, ok := t.Underlying().(*types.Struct)
		if !ok {
			ev.errorf("composite literal of %s", t)
		}
		fs := make([]*Term, st.NumFields())
		for i := range fs {
			fs[i] = TE.zeroValue(st.Field(i).Type())
		}
		for i, el := range n.Elts {
			if kv, ok := el.(*ast.KeyValueExpr); ok {
				name := kv.Key.(*ast.Ident).Name
				for k := 0; k < st.NumFields(); k++ {
					if st.Field(k).Name() == name {
						fs[k] = ev.ev(kv.Value).T
					}
				}
			} else {
				fs[i] = ev.ev(el).T
			}
		}
		return &Val{T: TE.MkStruct(t, fs), Typ: t}
	}
	ev.errorf("unsupported expression %T", e)
	return nil
}

// readElemQ reads a slice element without typing assumptions (safe under quantifiers).
func (ev *evaluator) readElemQ(elemT types.Type, sl, idx *Term) *Term {
	arr := ev.x.elemArr(ev.st, elemT, slRef(sl))
	if hasFreeBound(idx) {
		return ev.x.atFun(ev.st, arr, slOff(sl), idx)
	}
	if !hasFreeBound(sl) {
		// a ground read: typing facts, and the index becomes a term of interest for the quantified facts about the array
		return ev.x.readElem(ev.st, elemT, sl, idx)
	}
	return Select(arr, Add(slOff(sl), idx))
}

func (ev *evaluator) coerce(a, b *Val) (*Val, *Val) {
	// untyped nil / literals adopt the other operand's type
	if a.Typ == nil && b.Typ != nil {
		a = &Val{T: TE.zeroValue(b.Typ), Typ: b.Typ}
	}
	if b.Typ == nil && a.Typ != nil {
		b = &Val{T: TE.zeroValue(a.Typ), Typ: a.Typ}
	}
	if a.Typ != nil && b.Typ != nil && a.T != nil && b.T != nil && a.T.sort != b.T.sort {
		// string literal vs named string etc. are same sort; mismatches are errors
		ev.errorf("operands of different sorts: %s vs %s", a.T.sort.Name, b.T.sort.Name)
	}
	return a, b
}

func (ev *evaluator) pkgOf() *types.Package {
	root := rootParent(ev.fr.fn)
	if root.Pkg != nil {
		return root.Pkg.Pkg
	}
	if o := root.Origin(); o != nil && o.Pkg != nil {
		return o.Pkg.Pkg
	}
	return nil
}

func (ev *evaluator) ident(name string) *Val {
	if v, ok := ev.lets[name]; ok {
		return v
	}
	if e, ok := ev.lazy[name]; ok {
		delete(ev.lazy, name)
		v := ev.ev(e)
		ev.lets[name] = v
		return v
	}
	switch name {
	case "true":
		return &Val{T: True, Typ: boolT}
	case "false":
		return &Val{T: False, Typ: boolT}
	case "nil":
		return &Val{}
	case "result":
		if ev.fr.results == nil {
			if v := ev.local(name); v != nil {
				return v
			}
			ev.errorf("result used outside ensures")
		}
		if ev.fr.results.Tuple != nil {
			ev.errorf("result is a tuple; use result0, result1, ...")
		}
		return ev.fr.results
	case "MaxInt":
		return &Val{T: IntLitStr("9223372036854775807"), Typ: intT}
	case "MinInt":
		return &Val{T: IntLitStr("-9223372036854775808"), Typ: intT}
	}
	if strings.HasPrefix(name, "result") && ev.fr.results != nil {
		if i, err := strconv.Atoi(name[6:]); err == nil {
			if ev.fr.results.Tuple == nil {
				if i == 0 {
					return ev.fr.results
				}
			} else if i < len(ev.fr.results.Tuple) {
				return ev.fr.results.Tuple[i]
			}
		}
	}
	// outer_<name>: a parameter, captured variable or local whose name collides with a contract keyword (`result`)
	name = strings.TrimPrefix(name, "outer_")
	fn := ev.fr.fn
	for i, p := range fn.Params {
		if p.Name() == name && i < len(ev.fr.params) {
			return ev.fr.params[i]
		}
	}
	for i, f := range fn.FreeVars {
		if f.Name() == name && i < len(ev.fr.freeVars) {
			return ev.deref(ev.fr.freeVars[i], f.Type())
		}
	}
	if v := ev.local(name); v != nil {
		return v
	}
	// variables of the enclosing functions (closures inlined into their parent)
	for c := ev.fr.caller; c != nil; c = c.caller {
		if rootParent(c.fn) != rootParent(ev.fr.fn) {
			break
		}
		sub := &evaluator{x: ev.x, fr: c, st: ev.st, lets: map[string]*Val{}, owned: ev.owned}
		for i, p := range c.fn.Params {
			if p.Name() == name && i < len(c.params) {
				return c.params[i]
			}
		}
		if v := sub.local(name); v != nil {
			if sub.owned && !ev.owned {
				ev.st, ev.owned = sub.st, true
			}
			return v
		}
	}
	// a closure verified on its own: variables of the enclosing functions
	if ev.fr.caller == nil || rootParent(ev.fr.caller.fn) != rootParent(fn) {
		for p := fn.Parent(); p != nil; p = p.Parent() {
			for _, b := range p.Blocks {
				for _, ins := range b.Instrs {
					if a, ok := ins.(*ssa.Alloc); ok && a.Comment == name {
						ev.own()
						return ev.deref(ev.x.parentCell(ev.st, a), a.Type())
					}
				}
			}
			for _, prm := range p.Params {
				if prm.Name() == name {
					ev.errorf("parameter %q of the enclosing function is not captured by reference", name)
				}
			}
		}
	}
	// package level
	if pkg := ev.pkgOf(); pkg != nil {
		if obj := pkg.Scope().Lookup(name); obj != nil {
			return ev.object(obj)
		}
	}
	ev.errorf("unknown identifier %q in contract of %s", name, fn)
	return nil
}

// deref: captured variables are pointers to cells; contracts name the variable itself.
func (ev *evaluator) deref(v *Val, t types.Type) *Val {
	if v.Ptr != nil && v.Ptr.kind == pkCell {
		ev.own()
		if sv, ok := ev.x.job.special[fmt.Sprintf("%s@%d", v.Ptr.cell, v.Ptr.ref.id)]; ok {
			return sv
		}
		return &Val{T: ev.x.load(ev.st, v.Ptr), Typ: v.Ptr.targetType()}
	}
	if pt, ok := t.Underlying().(*types.Pointer); ok {
		if _, isStruct := pt.Elem().Underlying().(*types.Struct); isStruct && v.T != nil {
			// captured struct variable: expose as pointer (field access derefs automatically)
			return v
		}
	}
	return v
}

func domDepth(b *ssa.BasicBlock) int {
	d := 0
	for b.Idom() != nil {
		b = b.Idom()
		d++
	}
	return d
}

// local resolves a source-level variable name at the evaluation point (a loop header, or function
// entry/exit when blk is nil): the innermost definition that dominates the point wins; a phi of the
// header itself is the variable's value at the cut point.
func (ev *evaluator) local(name string) *Val {
	fr := ev.fr
	var best ssa.Value
	bestDepth := -1
	visible := func(b *ssa.BasicBlock) bool {
		if ev.blk == nil {
			return b.Index == 0
		}
		return b == ev.blk || b.Dominates(ev.blk)
	}
	consider := func(v ssa.Value, defBlk *ssa.BasicBlock, atHeader bool) {
		if !visible(defBlk) {
			return
		}
		if defBlk == ev.blk && !atHeader && !ev.midBlock {
			return // defined in the header after the cut point
		}
		if _, isConst := v.(*ssa.Const); !isConst {
			if _, ok := fr.env[v]; !ok {
				if _, ok2 := ev.over[v]; !ok2 {
					return
				}
			}
		}
		d := domDepth(defBlk)*2 + 1
		if atHeader {
			d++
		}
		if d > bestDepth || (ev.midBlock && d == bestDepth) {
			best, bestDepth = v, d
		}
	}
	for _, b := range fr.fn.Blocks {
		for _, ins := range b.Instrs {
			switch in := ins.(type) {
			case *ssa.Phi:
				if in.Comment == name {
					consider(in, b, b == ev.blk)
				}
			case *ssa.Alloc:
				if in.Comment == name {
					if v, ok := fr.env[in]; ok {
						return ev.deref(v, in.Type())
					}
				}
			case *ssa.DebugRef:
				if id, ok := in.Expr.(*ast.Ident); ok && id.Name == name && !in.IsAddr {
					if val, ok := in.X.(ssa.Value); ok {
						consider(val, b, false)
					}
				}
			}
		}
	}
	if best == nil {
		return nil
	}
	if v, ok := ev.over[best]; ok {
		return v
	}
	return ev.x.get(fr, best)
}

func (ev *evaluator) object(obj types.Object) *Val {
	switch o := obj.(type) {
	case *types.Const:
		switch o.Val().Kind() {
		case constant.Int:
			i, _ := constant.Int64Val(o.Val())
			return &Val{T: IntLit(i), Typ: o.Type()}
		case constant.String:
			return &Val{T: StrLit(constant.StringVal(o.Val())), Typ: o.Type()}
		case constant.Bool:
			return &Val{T: BoolLit(constant.BoolVal(o.Val())), Typ: o.Type()}
		}
	case *types.Var:
		// package-level variable
		for _, sp := range ev.x.prog.ssaPkgs {
			if sp != nil && sp.Pkg == o.Pkg() {
				if g, ok := sp.Members[o.Name()].(*ssa.Global); ok {
					ev.own()
					return ev.x.loadGlobal(ev.st, g)
				}
			}
		}
	case *types.Func:
		if fn := ev.x.prog.prog.FuncValue(o); fn != nil {
			return &Val{Typ: o.Type(), Clo: &Closure{Fn: fn}}
		}
	}
	ev.errorf("unsupported package-level object %s", obj)
	return nil
}

func (ev *evaluator) selector(n *ast.SelectorExpr) *Val {
	// package-qualified name
	if id, ok := n.X.(*ast.Ident); ok {
		if _, isLet := ev.lets[id.Name]; !isLet {
			if pkg := ev.importedPkg(id.Name); pkg != nil {
				obj := pkg.Scope().Lookup(n.Sel.Name)
				if obj == nil {
					ev.errorf("unknown %s.%s", id.Name, n.Sel.Name)
				}
				return ev.object(obj)
			}
		}
	}
	base := ev.ev(n.X)
	return ev.fieldOf(base, n.Sel.Name)
}

func (ev *evaluator) importedPkg(name string) *types.Package {
	pkg := ev.pkgOf()
	if pkg == nil {
		return nil
	}
	for _, imp := range pkg.Imports() {
		if imp.Name() == name {
			return imp
		}
	}
	return nil
}

func (ev *evaluator) fieldOf(base *Val, name string) *Val {
	t := base.Typ
	if t == nil {
		ev.errorf("field %s of untyped value", name)
	}
	if pt, ok := t.Underlying().(*types.Pointer); ok {
		st, ok := pt.Elem().Underlying().(*types.Struct)
		if !ok {
			ev.errorf("field %s of %s", name, t)
		}
		for i := 0; i < st.NumFields(); i++ {
			if st.Field(i).Name() == name {
				ev.own()
				p := ev.x.ptrOf(base)
				ft := st.Field(i).Type()
				if p.kind == pkObj && len(p.path) == 0 {
					if !hasFreeBound(p.ref) {
						// ground read: with the typing facts of the heap version that supplies the value
						return &Val{T: ev.x.readField(ev.st, pt.Elem(), i, p.ref), Typ: ft}
					}
					return &Val{T: ev.x.ctx.hread(ev.st, fieldMapName(pt.Elem(), i), TE.SortOf(ft), p.ref), Typ: ft}
				}
				return &Val{T: ev.x.load(ev.st, p.extend(pathStep{field: i, typ: pt.Elem()})), Typ: ft}
			}
		}
		ev.errorf("no field %s in %s", name, t)
	}
	if st, ok := t.Underlying().(*types.Struct); ok {
		for i := 0; i < st.NumFields(); i++ {
			if st.Field(i).Name() == name {
				v := TE.Field(t, i, base.T)
				if !hasFreeBound(v) {
					ev.x.assumeTypeB(ev.st, v, st.Field(i).Type(), ev.x.bnd(ev.st, base.T))
				}
				return &Val{T: v, Typ: st.Field(i).Type()}
			}
		}
		ev.errorf("no field %s in %s", name, t)
	}
	ev.errorf("selector .%s on %s", name, t)
	return nil
}

func (ev *evaluator) resolveType(e ast.Expr) types.Type {
	switch n := e.(type) {
	case *ast.StarExpr:
		return types.NewPointer(ev.resolveType(n.X))
	case *ast.Ident:
		if pkg := ev.pkgOf(); pkg != nil {
			if obj, ok := pkg.Scope().Lookup(n.Name).(*types.TypeName); ok {
				return obj.Type()
			}
		}
		if obj, ok := types.Universe.Lookup(n.Name).(*types.TypeName); ok {
			return obj.Type()
		}
	case *ast.SelectorExpr:
		if id, ok := n.X.(*ast.Ident); ok {
			if pkg := ev.importedPkg(id.Name); pkg != nil {
				if obj, ok := pkg.Scope().Lookup(n.Sel.Name).(*types.TypeName); ok {
					return obj.Type()
				}
			}
		}
	case *ast.ArrayType:
		if n.Len == nil {
			return types.NewSlice(ev.resolveType(n.Elt))
		}
	}
	ev.errorf("cannot resolve type %v", e)
	return nil
}

func (ev *evaluator) resolveTypeName(s string) types.Type {
	e, err := parseExprCached(s)
	if err != nil {
		ev.errorf("bad type %q", s)
	}
	return ev.resolveType(e)
}

func (ev *evaluator) callExpr(n *ast.CallExpr) *Val {
	if id, ok := n.Fun.(*ast.Ident); ok {
		switch id.Name {
		case "len":
			v := ev.ev(n.Args[0])
			switch v.Typ.Underlying().(type) {
			case *types.Slice:
				return &Val{T: slLen(v.T), Typ: intT}
			case *types.Basic:
				return &Val{T: strLen(v.T), Typ: intT}
			case *types.Map:
				ev.own()
				return &Val{T: ev.x.mapLen(ev.st, v), Typ: intT}
			}
			ev.errorf("len of %s", v.Typ)
		case "old":
			// heap and captured variables as at function entry; SSA locals are state-independent
			sub := &evaluator{x: ev.x, fr: ev.fr, st: ev.fr.entry, lets: ev.lets, lazy: ev.lazy, blk: ev.blk, over: ev.over}
			return sub.ev(n.Args[0])
		case "loopindex":
			// the hidden index of the range loop with the given ordinal (index of the last processed element, -1 initially)
			k, ok := ev.ev(n.Args[0]).T.intVal()
			if !ok {
				ev.errorf("loopindex needs a literal loop ordinal")
			}
			for h, lp := range ev.fr.loops.headers {
				if lp.ordinal == int(k) {
					for _, ins := range h.Instrs {
						if phi, ok := ins.(*ssa.Phi); ok && phi.Comment == "rangeindex" {
							if v, ok := ev.over[phi]; ok {
								return v
							}
							return ev.x.get(ev.fr, phi)
						}
					}
				}
			}
			ev.errorf("loopindex(%d): no such range loop", k)
		case "sum":
			// sum(i, lo, hi, body) = body[lo] + ... + body[hi-1]
			name := n.Args[0].(*ast.Ident).Name
			lo := ev.ev(n.Args[1])
			hi := ev.ev(n.Args[2])
			// The summand is always evaluated in the function's entry heap, so that every occurrence of the same
			// source expression denotes the same (canonical) function of the index.
			bv := ev.x.sumVar(fmt.Sprintf("%s.d%d", ev.specName, ev.sumDepth), SInt)
			sub := &evaluator{x: ev.x, fr: ev.fr, st: ev.fr.entry, lets: map[string]*Val{}, lazy: ev.lazy, blk: ev.blk, over: ev.over, sumDepth: ev.sumDepth + 1, specName: ev.specName}
			for k, v := range ev.lets {
				sub.lets[k] = v
			}
			// inside a specification function the summand is abstracted over the function's parameters, so that
			// every application of the function uses the same sum function (with the actuals as arguments)
			actual := map[int]*Term{}
			for pn, pv := range ev.specParams {
				if pv.T == nil {
					continue
				}
				cv := ev.x.sumVar("sp."+ev.specName+"."+pn, pv.T.sort)
				sub.lets[pn] = &Val{T: cv, Typ: pv.Typ}
				actual[cv.id] = pv.T
			}
			sub.lets[name] = &Val{T: bv, Typ: intT}
			body := sub.ev(n.Args[3])
			res := ev.x.sumTermSrc(ev.st, bv, body.T, lo.T, hi.T, fmt.Sprintf("%s@%d", ev.specName, n.Pos()))
			if len(actual) > 0 {
				res = substTerm(res, actual)
				ev.x.unfoldSum(ev.st, res)
			}
			return &Val{T: res, Typ: intT}
		case "implies":
			a := ev.ev(n.Args[0])
			b := ev.ev(n.Args[1])
			return &Val{T: Implies(a.T, b.T), Typ: boolT}
		case "iff":
			a := ev.ev(n.Args[0])
			b := ev.ev(n.Args[1])
			return &Val{T: Eq(a.T, b.T), Typ: boolT}
		case "ite":
			c := ev.ev(n.Args[0])
			a := ev.ev(n.Args[1])
			b := ev.ev(n.Args[2])
			a, b = ev.coerce(a, b)
			return &Val{T: Ite(c.T, a.T, b.T), Typ: a.Typ}
		case "forall", "exists":
			// forall(i, lo, hi, body)
			name := n.Args[0].(*ast.Ident).Name
			lo := ev.ev(n.Args[1])
			hi := ev.ev(n.Args[2])
			bv := BoundVar(name, SInt)
			saved, had := ev.lets[name]
			ev.lets[name] = &Val{T: bv, Typ: intT}
			body := ev.ev(n.Args[3])
			if had {
				ev.lets[name] = saved
			} else {
				delete(ev.lets, name)
			}
			rng := And(Le(lo.T, bv), Lt(bv, hi.T))
			if id.Name == "forall" {
				return &Val{T: Forall([]*Term{bv}, Implies(rng, body.T)), Typ: boolT}
			}
			return &Val{T: Exists([]*Term{bv}, And(rng, body.T)), Typ: boolT}
		case "rangepos":
			// byte position of the range-over-string iterator at the loop cut point
			if ev.blk == nil {
				ev.errorf("rangepos() outside a loop clause")
			}
			for _, ins := range ev.blk.Instrs {
				if nx, ok := ins.(*ssa.Next); ok {
					itv := ev.x.get(ev.fr, nx.Iter)
					if itv.Iter != nil && !itv.Iter.isMap {
						return &Val{T: ev.x.ctx.hread(ev.st, itv.Iter.cell, SInt, itv.Iter.ref), Typ: intT}
					}
				}
			}
			ev.errorf("rangepos(): loop header has no string iterator")
		case "visited":
			// visited(k): key k has already been produced by the map iteration of this loop
			if ev.blk == nil {
				ev.errorf("visited() outside a loop clause")
			}
			k := ev.ev(n.Args[0])
			for _, ins := range ev.blk.Instrs {
				if nx, ok := ins.(*ssa.Next); ok {
					itv := ev.x.get(ev.fr, nx.Iter)
					if itv.Iter != nil && itv.Iter.isMap {
						mt := itv.Iter.mapVal.Typ.Underlying().(*types.Map)
						_, _, doms, _ := ev.x.mapSorts(mt)
						vis := ev.x.ctx.hread(ev.st, itv.Iter.cell+".visited", doms, itv.Iter.ref)
						kk := k.T
						if typeHasString(mt.Key()) {
							ev.own()
							kk = ev.x.mapKey(ev.st, k.T, mt.Key())
						}
						return &Val{T: Select(vis, kk), Typ: boolT}
					}
				}
			}
			ev.errorf("visited(): loop header has no map iterator")
		case "fst", "snd":
			v := ev.ev(n.Args[0])
			if v.Tuple == nil || len(v.Tuple) < 2 {
				ev.errorf("%s of a non-tuple", id.Name)
			}
			if id.Name == "fst" {
				return v.Tuple[0]
			}
			return v.Tuple[1]
		case "fresh":
			v := ev.ev(n.Args[0])
			return &Val{T: Ge(refOf(v), ev.fr.entry.alloc), Typ: boolT}
		case "allocated":
			v := ev.ev(n.Args[0])
			return &Val{T: And(Gt(refOf(v), IntLit(0)), Lt(refOf(v), ev.st.alloc)), Typ: boolT}
		case "isnil":
			v := ev.ev(n.Args[0])
			return &Val{T: ev.isNil(v), Typ: boolT}
		case "nonnil":
			v := ev.ev(n.Args[0])
			return &Val{T: Not(ev.isNil(v)), Typ: boolT}
		case "typeis":
			v := ev.ev(n.Args[0])
			t := ev.resolveType(n.Args[1])
			return &Val{T: Eq(ifTag(v.T), IntLit(int64(TE.TagOf(t)))), Typ: boolT}
		case "haskey":
			// haskey(m, k): k is a key of map m
			m := ev.ev(n.Args[0])
			k := ev.ev(n.Args[1])
			mt, ok := m.Typ.Underlying().(*types.Map)
			if !ok {
				ev.errorf("haskey on %s", m.Typ)
			}
			_, _, doms, _ := ev.x.mapSorts(mt)
			dom := ev.x.ctx.hread(ev.st, mapDomName(mt), doms, m.T)
			kk := k.T
			if typeHasString(mt.Key()) {
				ev.own()
				kk = ev.x.mapKey(ev.st, k.T, mt.Key())
			}
			if !hasFreeBound(kk) && !hasFreeBound(m.T) {
				ev.own()
				ev.x.ctx.assume(ev.st, Implies(And(Neq(m.T, IntLit(0)), Select(dom, kk)), Ge(ev.x.ctx.hread(ev.st, mapSizeName(mt), SInt, m.T), IntLit(1))))
			}
			return &Val{T: And(Neq(m.T, IntLit(0)), Select(dom, kk)), Typ: boolT}
		case "mapput", "mapdel", "mapsame", "mapisempty":
			// the content of map m now, relative to its content at function entry (maps are updated in place):
			//   mapput(m, k, v): the old content with k -> v;  mapdel(m, k): the old content without k;
			//   mapsame(m): unchanged;  mapisempty(m): no keys at all
			m := ev.ev(n.Args[0])
			mt, ok := m.Typ.Underlying().(*types.Map)
			if !ok {
				ev.errorf("%s on %s", id.Name, m.Typ)
			}
			_, _, doms, vals := ev.x.mapSorts(mt)
			rd := func(st *State) (*Term, *Term, *Term) {
				return ev.x.ctx.hread(st, mapDomName(mt), doms, m.T), ev.x.ctx.hread(st, mapValName(mt), vals, m.T), ev.x.ctx.hread(st, mapSizeName(mt), SInt, m.T)
			}
			dn, vn, sn := rd(ev.st)
			do, vo, so := rd(ev.fr.entry)
			switch id.Name {
			case "mapisempty":
				return &Val{T: And(Neq(m.T, IntLit(0)), Eq(dn, ConstArr(doms, False)), Eq(sn, IntLit(0))), Typ: boolT}
			case "mapsame":
				return &Val{T: And(Eq(dn, do), Eq(vn, vo), Eq(sn, so)), Typ: boolT}
			}
			k := ev.ev(n.Args[1])
			ev.own()
			kk := ev.x.mapKey(ev.st, k.T, mt.Key())
			if id.Name == "mapdel" {
				return &Val{T: And(Eq(dn, Store(do, kk, False)), Eq(vn, vo), Eq(sn, Ite(Select(do, kk), Sub(so, IntLit(1)), so))), Typ: boolT}
			}
			v := ev.ev(n.Args[2])
			return &Val{T: And(Eq(dn, Store(do, kk, True)), Eq(vn, Store(vo, kk, v.T)), Eq(sn, Ite(Select(do, kk), so, Add(so, IntLit(1))))), Typ: boolT}
		case "writes":
			// ghost state of the file system model (A-FS): number of os.WriteFile calls so far, path and data of the last one
			return &Val{T: ev.x.ctx.hread(ev.st, ghostWrites, SInt, IntLit(0)), Typ: intT}
		case "lastpath":
			return &Val{T: ev.x.ctx.hread(ev.st, ghostLastPath, SStr, IntLit(0)), Typ: types.Typ[types.String]}
		case "lastdata":
			return &Val{T: ev.x.ctx.hread(ev.st, ghostLastData, SStr, IntLit(0)), Typ: types.Typ[types.String]}
		case "streq":
			a := ev.ev(n.Args[0])
			b := ev.ev(n.Args[1])
			ev.own()
			return &Val{T: ev.x.strEqual(ev.st, a.T, b.T), Typ: boolT}
		case "same":
			// representation equality (SMT =)
			a := ev.ev(n.Args[0])
			b := ev.ev(n.Args[1])
			if a.Typ != nil && b.Typ != nil && a.T != nil && b.T != nil && a.T.sort != b.T.sort {
				// values of different sorts are never the same (lets one clause range over the instances of a generic)
				return &Val{T: False, Typ: boolT}
			}
			a, b = ev.coerce(a, b)
			return &Val{T: Eq(a.T, b.T), Typ: boolT}
		case "abs":
			a := ev.ev(n.Args[0])
			return &Val{T: Ite(Ge(a.T, IntLit(0)), a.T, Neg(a.T)), Typ: a.Typ}
		case "min", "max":
			a := ev.ev(n.Args[0])
			b := ev.ev(n.Args[1])
			if id.Name == "min" {
				return &Val{T: Ite(Le(a.T, b.T), a.T, b.T), Typ: a.Typ}
			}
			return &Val{T: Ite(Ge(a.T, b.T), a.T, b.T), Typ: a.Typ}
		case "ediv":
			a := ev.ev(n.Args[0])
			b := ev.ev(n.Args[1])
			ev.x.divFacts(ev.st, a.T, b.T)
			return &Val{T: ev.x.divBy(EDiv, a.T, b.T), Typ: intT}
		case "emod":
			a := ev.ev(n.Args[0])
			b := ev.ev(n.Args[1])
			ev.x.divFacts(ev.st, a.T, b.T)
			return &Val{T: ev.x.divBy(EMod, a.T, b.T), Typ: intT}
		case "int", "rune", "byte", "int64", "int32", "uint8":
			return ev.ev(n.Args[0])
		}
		if h, ok := specBuiltins[id.Name]; ok {
			var args []*Val
			for _, a := range n.Args {
				args = append(args, ev.ev(a))
			}
			ev.own()
			return h(ev, args)
		}
		// call of a function-typed parameter / variable
		if fv := ev.tryFuncValue(id.Name); fv != nil {
			var args []*Val
			for _, a := range n.Args {
				args = append(args, ev.ev(a))
			}
			ev.own()
			return ev.x.callClosure(ev.fr, ev.st, fv, args, token.NoPos)
		}
		// spec function
		if sf := ev.lookupSpec(id.Name); sf != nil {
			return ev.applySpec(sf, n.Args)
		}
		// lemma instance: (requires => ensures) of a lemma of this package at the given arguments
		if pkg := ev.pkgOf(); pkg != nil {
			if lc, ok := ev.x.prog.contracts.byKey[pkg.Path()+".lemma:"+id.Name]; ok && lc.Lemma {
				if len(n.Args) != len(lc.Params) {
					ev.errorf("lemma %s: wrong number of arguments", id.Name)
				}
				sub := &evaluator{x: ev.x, fr: ev.fr, st: ev.st, over: ev.over, lets: map[string]*Val{}, lazy: map[string]ast.Expr{}, blk: ev.blk}
				for i, prm := range lc.Params {
					sub.lets[prm.Name] = ev.ev(n.Args[i])
				}
				var reqs, enss []*Term
				for _, cl := range lc.Clauses {
					switch cl.Kind {
					case "let":
						delete(sub.lets, cl.Name)
						sub.lazy[cl.Name] = cl.Expr
					case "requires":
						reqs = append(reqs, sub.eval(cl.Expr).T)
					case "ensures":
						enss = append(enss, sub.eval(cl.Expr).T)
					}
				}
				ev.x.trusted["LEMMA used as hypothesis (proved separately): "+lc.Key] = true
				return &Val{T: Implies(And(reqs...), And(enss...)), Typ: boolT}
			}
		}
		// let-bound or package function
		if _, isLet := ev.lets[id.Name]; !isLet {
			if pkg := ev.pkgOf(); pkg != nil {
				if obj, ok := pkg.Scope().Lookup(id.Name).(*types.Func); ok {
					fn := ev.x.prog.prog.FuncValue(obj)
					return ev.callPure(fn, nil, n.Args)
				}
				if tn, ok := pkg.Scope().Lookup(id.Name).(*types.TypeName); ok {
					v := ev.ev(n.Args[0])
					nv := *v
					nv.Typ = tn.Type()
					return &nv
				}
			}
		}
		ev.errorf("unknown function %s", id.Name)
	}
	if sel, ok := n.Fun.(*ast.SelectorExpr); ok {
		// package-qualified function or spec
		if id, ok := sel.X.(*ast.Ident); ok {
			if _, isLet := ev.lets[id.Name]; !isLet {
				if pkg := ev.importedPkg(id.Name); pkg != nil {
					if sf, ok := ev.x.prog.contracts.specs[pkg.Path()+"."+sel.Sel.Name]; ok {
						return ev.applySpec(sf, n.Args)
					}
					if obj, ok := pkg.Scope().Lookup(sel.Sel.Name).(*types.Func); ok {
						fn := ev.x.prog.prog.FuncValue(obj)
						return ev.callPure(fn, nil, n.Args)
					}
					ev.errorf("unknown %s.%s", id.Name, sel.Sel.Name)
				}
			}
		}
		// method call
		recv := ev.ev(sel.X)
		return ev.methodCall(recv, sel.Sel.Name, n.Args)
	}
	// call of a function value given by an expression (an element of a slice of functions, a field)
	if fv := ev.ev(n.Fun); fv != nil && fv.Typ != nil {
		if _, isSig := fv.Typ.Underlying().(*types.Signature); isSig {
			var args []*Val
			for _, a := range n.Args {
				args = append(args, ev.ev(a))
			}
			ev.own()
			return ev.x.callClosure(ev.fr, ev.st, fv, args, token.NoPos)
		}
	}
	ev.errorf("unsupported call %v", n.Fun)
	return nil
}

func refOf(v *Val) *Term {
	switch v.Typ.Underlying().(type) {
	case *types.Slice:
		return slRef(v.T)
	case *types.Interface:
		return ifRef(v.T)
	}
	return v.T
}

func (ev *evaluator) isNil(v *Val) *Term {
	if v.Typ == nil {
		return True
	}
	switch v.Typ.Underlying().(type) {
	case *types.Slice:
		return Eq(slRef(v.T), IntLit(0))
	case *types.Interface:
		return Eq(ifTag(v.T), IntLit(0))
	}
	if v.Ptr != nil {
		return False
	}
	return Eq(v.T, IntLit(0))
}

func (ev *evaluator) lookupSpec(name string) *SpecFunc {
	if pkg := ev.pkgOf(); pkg != nil {
		if sf, ok := ev.x.prog.contracts.specs[pkg.Path()+"."+name]; ok {
			return sf
		}
	}
	if sf, ok := ev.x.prog.contracts.specs[name]; ok {
		return sf
	}
	return nil
}

func (ev *evaluator) applySpec(sf *SpecFunc, args []ast.Expr) *Val {
	if len(args) != len(sf.Params) {
		ev.errorf("spec %s: wrong number of arguments", sf.Name)
	}
	if sf.Expr == nil {
		// uninterpreted specification function
		var ts []*Term
		for _, a := range args {
			v := ev.ev(a)
			if v.T == nil {
				ev.errorf("spec %s applied to a non-term", sf.Name)
			}
			ts = append(ts, v.T)
		}
		rs, rt := SBool, types.Type(boolT)
		switch sf.Ret {
		case "int":
			rs, rt = SInt, intT
		case "string":
			rs, rt = SStr, types.Typ[types.String]
		case "bool":
		default:
			// a named type of the declaring package (e.g. an arbitrary-but-fixed Tag: a spec without parameters is a
			// constant, and what is proved about it holds for every value)
			sub := &evaluator{x: ev.x, fr: ev.fr, st: ev.st, lets: map[string]*Val{}}
			if sf.Pkg != "" {
				if pf := ev.x.prog.anyFuncOfPkg(sf.Pkg); pf != nil {
					sub.fr = &Frame{fn: pf, env: map[ssa.Value]*Val{}, entry: ev.fr.entry, lets: map[string]*Val{}}
				}
			}
			rt = sub.resolveTypeName(sf.Ret)
			rs = TE.SortOf(rt)
		}
		r := UF("spec."+sanitize(sf.Pkg[strings.LastIndex(sf.Pkg, "/")+1:])+"."+sf.Name, rs, ts...)
		if rs != SBool && rs != SInt && !hasFreeBound(r) {
			if f := ev.x.typeFact(&State{alloc: ev.x.job.alloc0}, r, rt, 0); f != True {
				ev.x.ctx.assumeGlobal(ev.st, f)
			}
		}
		return &Val{T: r, Typ: rt}
	}
	sub := &evaluator{x: ev.x, fr: ev.fr, st: ev.st, over: ev.over, lets: map[string]*Val{}, blk: ev.blk, owned: ev.owned, sumDepth: 0}
	// spec bodies are resolved in the package that declares them
	sub.specName = sf.Name
	sub.specParams = map[string]*Val{}
	for i, p := range sf.Params {
		sub.lets[p.Name] = ev.ev(args[i])
		sub.specParams[p.Name] = sub.lets[p.Name]
	}
	// keep outer lets that are spec-level helpers out of scope (lexical scoping)
	saved := ev.fr
	if sf.Pkg != "" {
		if pf := ev.x.prog.anyFuncOfPkg(sf.Pkg); pf != nil && (ev.pkgOf() == nil || ev.pkgOf().Path() != sf.Pkg) {
			sub.fr = &Frame{fn: pf, env: map[ssa.Value]*Val{}, entry: ev.fr.entry, lets: map[string]*Val{}}
		}
	}
	_ = saved
	r := sub.ev(sf.Expr)
	if sub.owned {
		ev.st = sub.st
		ev.owned = true
	}
	return r
}

func (p *Program) anyFuncOfPkg(path string) *ssa.Function {
	for _, sp := range p.ssaPkgs {
		if sp != nil && sp.Pkg.Path() == path {
			for _, m := range sp.Members {
				if fn, ok := m.(*ssa.Function); ok && fn.Name() != "init" && len(fn.Blocks) > 0 && fn.TypeParams().Len() == 0 {
					return fn
				}
			}
		}
	}
	return nil
}

func (ev *evaluator) methodCall(recv *Val, name string, args []ast.Expr) *Val {
	t := recv.Typ
	if t == nil {
		ev.errorf("method call on untyped value")
	}
	var avs []*Val
	for _, a := range args {
		avs = append(avs, ev.ev(a))
	}
	ev.own()
	if isInterface(t) {
		it := t.Underlying().(*types.Interface)
		for i := 0; i < it.NumMethods(); i++ {
			if it.Method(i).Name() == name {
				return ev.x.invoke(ev.fr, ev.st, recv, it.Method(i), avs, token.NoPos)
			}
		}
		ev.errorf("no method %s on %s", name, t)
	}
	ms := ev.x.prog.prog.MethodSets.MethodSet(t)
	var sel *types.Selection
	for i := 0; i < ms.Len(); i++ {
		if ms.At(i).Obj().Name() == name {
			sel = ms.At(i)
		}
	}
	if sel == nil {
		// value receiver addressed through pointer
		ms = ev.x.prog.prog.MethodSets.MethodSet(types.NewPointer(t))
		for i := 0; i < ms.Len(); i++ {
			if ms.At(i).Obj().Name() == name {
				sel = ms.At(i)
			}
		}
		if sel == nil {
			ev.errorf("no method %s on %s", name, t)
		}
		// need an addressable copy
		if _, isStruct := t.Underlying().(*types.Struct); isStruct {
			ref := ev.x.allocRef(ev.st)
			ev.x.storeObjFresh(ev.st, t, ref, recv.T)
			recv = &Val{T: ref, Typ: types.NewPointer(t)}
		} else {
			ev.errorf("method %s needs addressable receiver of type %s", name, t)
		}
	}
	fn := ev.x.prog.prog.MethodValue(sel)
	return ev.x.callFunc(ev.fr, ev.st, fn, append([]*Val{recv}, avs...), nil, token.NoPos)
}

func (ev *evaluator) callPure(fn *ssa.Function, recv *Val, args []ast.Expr) *Val {
	if fn == nil {
		ev.errorf("function has no SSA body")
	}
	var avs []*Val
	if recv != nil {
		avs = append(avs, recv)
	}
	for i, a := range args {
		v := ev.ev(a)
		if v.Typ == nil && i < fn.Signature.Params().Len() {
			pt := fn.Signature.Params().At(i).Type()
			v = &Val{T: TE.zeroValue(pt), Typ: pt}
		}
		avs = append(avs, v)
	}
	ev.own()
	return ev.x.callFunc(ev.fr, ev.st, fn, avs, nil, token.NoPos)
}

// modTarget resolves a modifies location to (heap map, object reference, all-objects flag).
func (ev *evaluator) modTarget(m *ModLoc) (string, *Term, bool) {
	ev.x.pure++
	defer func() { ev.x.pure-- }()
	switch n := m.Expr.(type) {
	case *ast.SelectorExpr:
		base := ev.ev(n.X)
		pt, ok := base.Typ.Underlying().(*types.Pointer)
		if !ok {
			ev.errorf("modifies %s: base is not a pointer", m.Src)
		}
		st := pt.Elem().Underlying().(*types.Struct)
		for i := 0; i < st.NumFields(); i++ {
			if st.Field(i).Name() == n.Sel.Name {
				return fieldMapName(pt.Elem(), i), base.T, false
			}
		}
	case *ast.CallExpr:
		if id, ok := n.Fun.(*ast.Ident); ok {
			switch id.Name {
			case "elems":
				v := ev.ev(n.Args[0])
				sl := v.Typ.Underlying().(*types.Slice)
				return arrMapName(sl.Elem()), slRef(v.T), false
			case "mapof":
				v := ev.ev(n.Args[0])
				mt := v.Typ.Underlying().(*types.Map)
				return mapDomName(mt), v.T, false
			case "disk":
				// the ghost file system (write counter; last path and data follow, see expandMod)
				return ghostWrites, IntLit(0), false
			}
		}
	}
	ev.errorf("unsupported modifies location %s", m.Src)
	return "", nil, false
}

var exprCache = map[string]ast.Expr{}

func parseExprCached(s string) (ast.Expr, error) {
	if e, ok := exprCache[s]; ok {
		return e, nil
	}
	e, err := parserParseExpr(s)
	if err == nil {
		exprCache[s] = e
	}
	return e, err
}

// tryFuncValue resolves an identifier to a function-typed parameter, free variable or let binding.
func (ev *evaluator) tryFuncValue(name string) *Val {
	if v, ok := ev.lets[name]; ok {
		if v.Typ != nil {
			if _, isSig := v.Typ.Underlying().(*types.Signature); isSig {
				return v
			}
		}
		return nil
	}
	fn := ev.fr.fn
	for i, p := range fn.Params {
		if p.Name() == name && i < len(ev.fr.params) {
			if _, isSig := p.Type().Underlying().(*types.Signature); isSig {
				return ev.fr.params[i]
			}
		}
	}
	return nil
}
