package main

// Regex-language obligations: L(pattern found in the source) == L(specification regex),
// decided by z3's string theory over a compressed alphabet (one representative per minterm
// of the character classes occurring in the pair).

import (
	"os"
	"context"
	"fmt"
	"regexp"
	"regexp/syntax"
	"sort"
	"strings"
	"time"
	"unicode/utf8"
)

type RegexObl struct {
	Name    string // e.g. klog.timePattern
	Code    string // pattern found in the source
	Spec    string // specification-side pattern
	Status  string
	Witness string
	Secs    float64
	Solver  string
	Note    string
	Anchored bool   // compare the languages of whole-string matches: ^(?:pattern)$
	Domain   string // optional: compare only on the strings of this (anchored) language, e.g. ^[^\n]*$ for single lines
}

const maxRune = 0x10FFFF

func collectCuts(re *syntax.Regexp, cuts map[rune]bool) {
	switch re.Op {
	case syntax.OpLiteral:
		for _, r := range re.Rune {
			cuts[r] = true
			cuts[r+1] = true
			if re.Flags&syntax.FoldCase != 0 {
				for _, f := range foldOrbit(r) {
					cuts[f] = true
					cuts[f+1] = true
				}
			}
		}
	case syntax.OpCharClass:
		for i := 0; i+1 < len(re.Rune); i += 2 {
			cuts[re.Rune[i]] = true
			cuts[re.Rune[i+1]+1] = true
		}
	case syntax.OpAnyCharNotNL:
		cuts['\n'] = true
		cuts['\n'+1] = true
	}
	for _, s := range re.Sub {
		collectCuts(s, cuts)
	}
}

func foldOrbit(r rune) []rune {
	var out []rune
	for f := simpleFold(r); f != r; f = simpleFold(f) {
		out = append(out, f)
	}
	return out
}

type alphabet struct {
	starts []rune // sorted minterm start points; minterm i = [starts[i], starts[i+1])
	// Minterms that belong to exactly the same character sets of the patterns are indistinguishable: they share one
	// symbol (class). class[i] is the symbol of minterm i, rep[c] a representative rune of symbol c.
	class []int
	rep   []rune
}

// collectSets gathers the character sets that occur in a pattern (as lists of inclusive ranges).
func collectSets(re *syntax.Regexp, sets *[][]rune) {
	switch re.Op {
	case syntax.OpLiteral:
		for _, r := range re.Rune {
			set := []rune{r, r}
			if re.Flags&syntax.FoldCase != 0 {
				for _, f := range foldOrbit(r) {
					set = append(set, f, f)
				}
			}
			*sets = append(*sets, set)
		}
	case syntax.OpCharClass:
		*sets = append(*sets, append([]rune{}, re.Rune...))
	case syntax.OpAnyCharNotNL:
		*sets = append(*sets, []rune{'\n', '\n'})
	}
	for _, s := range re.Sub {
		collectSets(s, sets)
	}
}

func (a *alphabet) classify(sets [][]rune) {
	ids := map[string]int{}
	a.class = make([]int, len(a.starts))
	for i, s := range a.starts {
		sig := make([]byte, len(sets))
		for k, set := range sets {
			sig[k] = '0'
			for j := 0; j+1 < len(set); j += 2 {
				if set[j] <= s && s <= set[j+1] {
					sig[k] = '1'
					break
				}
			}
		}
		id, ok := ids[string(sig)]
		if !ok {
			id = len(a.rep)
			ids[string(sig)] = id
			a.rep = append(a.rep, s)
		}
		a.class[i] = id
	}
}

func (a *alphabet) code(c int) string {
	// representative characters are taken from a private range that needs no escaping
	return fmt.Sprintf("\\u{%x}", 0x100+c)
}

// mintermsIn returns the symbols of the minterms that lie inside [lo, hi].
func (a *alphabet) mintermsIn(lo, hi rune) []int {
	var out []int
	seen := map[int]bool{}
	for i, s := range a.starts {
		end := rune(maxRune + 1)
		if i+1 < len(a.starts) {
			end = a.starts[i+1]
		}
		if s >= lo && end-1 <= hi && !seen[a.class[i]] {
			seen[a.class[i]] = true
			out = append(out, a.class[i])
		}
	}
	return out
}

func (a *alphabet) union(ms0 []int) string {
	var ms []int
	seen := map[int]bool{}
	for _, m := range ms0 {
		if !seen[m] {
			seen[m] = true
			ms = append(ms, m)
		}
	}
	if len(ms) == 0 {
		return "re.none"
	}
	var parts []string
	for _, m := range ms {
		parts = append(parts, fmt.Sprintf("(str.to_re \"%s\")", a.code(m)))
	}
	if len(parts) == 1 {
		return parts[0]
	}
	return "(re.union " + strings.Join(parts, " ") + ")"
}

func (a *alphabet) all() string {
	var ms []int
	for c := range a.rep {
		ms = append(ms, c)
	}
	return a.union(ms)
}

func (a *alphabet) translate(re *syntax.Regexp) (string, error) {
	switch re.Op {
	case syntax.OpEmptyMatch:
		return "(str.to_re \"\")", nil
	case syntax.OpLiteral:
		var parts []string
		for _, r := range re.Rune {
			ms := a.mintermsIn(r, r)
			if re.Flags&syntax.FoldCase != 0 {
				for _, f := range foldOrbit(r) {
					ms = append(ms, a.mintermsIn(f, f)...)
				}
			}
			parts = append(parts, a.union(ms))
		}
		if len(parts) == 1 {
			return parts[0], nil
		}
		return "(re.++ " + strings.Join(parts, " ") + ")", nil
	case syntax.OpCharClass:
		var ms []int
		for i := 0; i+1 < len(re.Rune); i += 2 {
			ms = append(ms, a.mintermsIn(re.Rune[i], re.Rune[i+1])...)
		}
		return a.union(ms), nil
	case syntax.OpAnyChar:
		return a.all(), nil
	case syntax.OpAnyCharNotNL:
		var ms []int
		for i := range a.starts {
			if a.starts[i] != '\n' {
				ms = append(ms, a.class[i])
			}
		}
		return a.union(ms), nil
	case syntax.OpCapture:
		return a.translate(re.Sub[0])
	case syntax.OpConcat, syntax.OpAlternate:
		var parts []string
		for _, s := range re.Sub {
			if s.Op == syntax.OpBeginText || s.Op == syntax.OpEndText || s.Op == syntax.OpBeginLine || s.Op == syntax.OpEndLine {
				return "", fmt.Errorf("anchor inside pattern")
			}
			p, err := a.translate(s)
			if err != nil {
				return "", err
			}
			parts = append(parts, p)
		}
		if len(parts) == 0 {
			return "(str.to_re \"\")", nil
		}
		if len(parts) == 1 {
			return parts[0], nil
		}
		op := "re.++"
		if re.Op == syntax.OpAlternate {
			op = "re.union"
		}
		return "(" + op + " " + strings.Join(parts, " ") + ")", nil
	case syntax.OpStar, syntax.OpPlus, syntax.OpQuest:
		p, err := a.translate(re.Sub[0])
		if err != nil {
			return "", err
		}
		op := map[syntax.Op]string{syntax.OpStar: "re.*", syntax.OpPlus: "re.+", syntax.OpQuest: "re.opt"}[re.Op]
		return "(" + op + " " + p + ")", nil
	case syntax.OpRepeat:
		p, err := a.translate(re.Sub[0])
		if err != nil {
			return "", err
		}
		if re.Max == -1 {
			if re.Min == 0 {
				return "(re.* " + p + ")", nil
			}
			return fmt.Sprintf("(re.++ ((_ re.^ %d) %s) (re.* %s))", re.Min, p, p), nil
		}
		return fmt.Sprintf("((_ re.loop %d %d) %s)", re.Min, re.Max, p), nil
	}
	return "", fmt.Errorf("unsupported regex operator %v", re.Op)
}

// fullLanguage returns the RegLan term of { s | pattern matches somewhere in s } honouring ^ and $ at the ends.
func (a *alphabet) fullLanguage(re *syntax.Regexp) (string, error) {
	subs := []*syntax.Regexp{re}
	if re.Op == syntax.OpConcat {
		subs = re.Sub
	}
	anchS, anchE := false, false
	if len(subs) > 0 && (subs[0].Op == syntax.OpBeginText || subs[0].Op == syntax.OpBeginLine) {
		anchS = true
		subs = subs[1:]
	}
	if len(subs) > 0 && (subs[len(subs)-1].Op == syntax.OpEndText || subs[len(subs)-1].Op == syntax.OpEndLine) {
		anchE = true
		subs = subs[:len(subs)-1]
	}
	var parts []string
	if !anchS {
		parts = append(parts, "(re.* "+a.all()+")")
	}
	for _, s := range subs {
		p, err := a.translate(s)
		if err != nil {
			return "", err
		}
		parts = append(parts, p)
	}
	if !anchE {
		parts = append(parts, "(re.* "+a.all()+")")
	}
	switch len(parts) {
	case 0:
		return "(str.to_re \"\")", nil
	case 1:
		return parts[0], nil
	}
	return "(re.++ " + strings.Join(parts, " ") + ")", nil
}

func checkRegexEq(o *RegexObl, timeoutMs int) {
	t0 := time.Now()
	defer func() { o.Secs = time.Since(t0).Seconds() }()
	codePat, specPat := o.Code, o.Spec
	if o.Anchored {
		codePat, specPat = "^(?:"+codePat+")$", "^(?:"+specPat+")$"
	}
	rc, err := syntax.Parse(codePat, syntax.Perl)
	if err != nil {
		o.Status, o.Note = "failed", "pattern in source does not parse: "+err.Error()
		return
	}
	rs, err := syntax.Parse(specPat, syntax.Perl)
	if err != nil {
		o.Status, o.Note = "unknown", "spec pattern does not parse: "+err.Error()
		return
	}
	cuts := map[rune]bool{0: true}
	collectCuts(rc, cuts)
	collectCuts(rs, cuts)
	var rd *syntax.Regexp
	if o.Domain != "" {
		rd, err = syntax.Parse(o.Domain, syntax.Perl)
		if err != nil {
			o.Status, o.Note = "unknown", "domain pattern does not parse: "+err.Error()
			return
		}
		collectCuts(rd, cuts)
	}
	al := &alphabet{}
	for c := range cuts {
		if c >= 0 && c <= maxRune {
			al.starts = append(al.starts, c)
		}
	}
	sort.Slice(al.starts, func(i, j int) bool { return al.starts[i] < al.starts[j] })
	var sets [][]rune
	collectSets(rc, &sets)
	collectSets(rs, &sets)
	if rd != nil {
		collectSets(rd, &sets)
	}
	al.classify(sets)
	lc, err := al.fullLanguage(rc)
	if err != nil {
		o.Status, o.Note = "unknown", err.Error()
		return
	}
	ls, err := al.fullLanguage(rs)
	if err != nil {
		o.Status, o.Note = "unknown", err.Error()
		return
	}
	dom := ""
	if rd != nil {
		ld, err := al.fullLanguage(rd)
		if err != nil {
			o.Status, o.Note = "unknown", err.Error()
			return
		}
		dom = "(assert (str.in_re s " + ld + "))\n"
	}
	script := fmt.Sprintf("(set-option :timeout %d)\n(declare-const s String)\n%s(assert (xor (str.in_re s %s) (str.in_re s %s)))\n(check-sat)\n(get-value (s))\n", timeoutMs, dom, lc, ls)
	if d := os.Getenv("GOVC_KEEP_REGEX"); d != "" {
		os.WriteFile(d+"/"+sanitize(o.Name)+".smt2", []byte(script), 0644)
	}
	for _, sv := range []solverDef{{"z3-5.1.0", "z3-new", []string{"-in"}, true}, {"z3-4.8.12", "/usr/bin/z3", []string{"-in"}, true}} {
		ctx, cancel := context.WithTimeout(context.Background(), time.Duration(timeoutMs+2000)*time.Millisecond)
		out, _ := runSolver(ctx, sv.bin, sv.args, script)
		cancel()
		first := strings.SplitN(strings.TrimSpace(out), "\n", 2)[0]
		o.Solver = sv.name
		if first == "unsat" {
			o.Status = "proved"
			return
		}
		if first == "sat" {
			o.Status = "failed"
			o.Witness = al.decodeWitness(out)
			// replay on the real regexp engine
			c1, e1 := regexp.Compile(codePat)
			c2, e2 := regexp.Compile(specPat)
			if e1 == nil && e2 == nil {
				m1, m2 := c1.MatchString(o.Witness), c2.MatchString(o.Witness)
				o.Note = fmt.Sprintf("witness %q: source pattern matches=%v, specification matches=%v", o.Witness, m1, m2)
				if m1 == m2 {
					o.Note += " (replay did not reproduce)"
				}
			}
			return
		}
		o.Note = firstLines(out, 2)
	}
	o.Status = "unknown"
}

func (a *alphabet) decodeWitness(out string) string {
	i := strings.Index(out, "((s \"")
	if i < 0 {
		return ""
	}
	rest := out[i+5:]
	j := strings.Index(rest, "\"))")
	if j < 0 {
		return ""
	}
	enc := rest[:j]
	var sb strings.Builder
	for len(enc) > 0 {
		if strings.HasPrefix(enc, "\\u{") {
			k := strings.Index(enc, "}")
			var code int
			fmt.Sscanf(enc[3:k], "%x", &code)
			idx := code - 0x100
			if idx >= 0 && idx < len(a.rep) {
				sb.WriteRune(a.rep[idx])
			}
			enc = enc[k+1:]
			continue
		}
		r, w := utf8.DecodeRuneInString(enc)
		idx := int(r) - 0x100
		if idx >= 0 && idx < len(a.starts) {
			sb.WriteRune(a.starts[idx])
		}
		enc = enc[w:]
	}
	return sb.String()
}
