package main

// Program loading, loop structure, closed-world interface tables, static write sets, globals.

import (
	"fmt"
	"go/ast"
	"go/token"
	"go/types"
	"os"
	"sort"
	"strconv"
	"strings"

	"golang.org/x/tools/go/packages"
	"golang.org/x/tools/go/ssa"
	"golang.org/x/tools/go/ssa/ssautil"
)

const modulePath = "github.com/jotaen/klog"

type Program struct {
	repo      string
	fset      *token.FileSet
	pkgs      []*packages.Package
	prog      *ssa.Program
	ssaPkgs   []*ssa.Package
	contracts *ContractSet
	funcs     map[string]*ssa.Function // funcKey -> function
	loopCache map[*ssa.Function]*loopInfo
	implCache map[string][]types.Type
	wsCache   map[*ssa.Function]map[string]*writeEff
	wsBusy    map[*ssa.Function]bool
	globInit  map[string]ast.Expr // global object path.name -> initializer
	globPkg   map[string]*packages.Package
	closureOf map[*ssa.Function]*ssa.MakeClosure
	allTypes  []types.Type
	rtTypes   map[string]bool
	rtList    []types.Type
	allFns    []*ssa.Function
}

func loadProgram(repo string) (*Program, error) {
	cfg := &packages.Config{Mode: packages.LoadAllSyntax, Dir: repo, BuildFlags: []string{"-tags=verif"}, Tests: false, Env: loadEnv()}
	pkgs, err := packages.Load(cfg, "./klog/...", ".")
	if err != nil {
		return nil, err
	}
	nerr := 0
	packages.Visit(pkgs, nil, func(p *packages.Package) {
		for _, e := range p.Errors {
			if strings.HasPrefix(p.PkgPath, modulePath) {
				fmt.Fprintln(os.Stderr, "load error:", e)
				nerr++
			}
		}
	})
	if nerr > 0 {
		return nil, fmt.Errorf("%d load errors", nerr)
	}
	prog, spkgs := ssautil.AllPackages(pkgs, ssa.InstantiateGenerics|ssa.GlobalDebug)
	prog.Build()
	p := &Program{repo: repo, fset: prog.Fset, pkgs: pkgs, prog: prog, ssaPkgs: spkgs,
		funcs: map[string]*ssa.Function{}, loopCache: map[*ssa.Function]*loopInfo{}, implCache: map[string][]types.Type{},
		wsCache: map[*ssa.Function]map[string]*writeEff{}, wsBusy: map[*ssa.Function]bool{},
		globInit: map[string]ast.Expr{}, globPkg: map[string]*packages.Package{}, closureOf: map[*ssa.Function]*ssa.MakeClosure{}}
	for fn := range ssautil.AllFunctions(prog) {
		if p.inModule(fn) {
			p.allFns = append(p.allFns, fn)
			p.funcs[funcKey(fn)] = fn
		}
		for _, b := range fn.Blocks {
			for _, ins := range b.Instrs {
				if mc, ok := ins.(*ssa.MakeClosure); ok {
					p.closureOf[mc.Fn.(*ssa.Function)] = mc
				}
			}
		}
	}
	// module types (for closed-world dispatch) and global initialisers
	packages.Visit(pkgs, nil, func(pk *packages.Package) {
		if !strings.HasPrefix(pk.PkgPath, modulePath) {
			return
		}
		sc := pk.Types.Scope()
		for _, n := range sc.Names() {
			if tn, ok := sc.Lookup(n).(*types.TypeName); ok && !tn.IsAlias() {
				if named, ok := tn.Type().(*types.Named); ok && named.TypeParams().Len() == 0 {
					p.allTypes = append(p.allTypes, named)
				}
			}
		}
		for _, f := range pk.Syntax {
			for _, d := range f.Decls {
				gd, ok := d.(*ast.GenDecl)
				if !ok || gd.Tok != token.VAR {
					continue
				}
				for _, sp := range gd.Specs {
					vs := sp.(*ast.ValueSpec)
					if len(vs.Values) != len(vs.Names) {
						continue
					}
					for i, nm := range vs.Names {
						p.globInit[pk.PkgPath+"."+nm.Name] = vs.Values[i]
						p.globPkg[pk.PkgPath+"."+nm.Name] = pk
					}
				}
			}
		}
	})
	// instantiated generic types used as dynamic types are discovered through SSA runtime types
	for _, t := range prog.RuntimeTypes() {
		if n, ok := t.(*types.Named); ok && n.Obj().Pkg() != nil && strings.HasPrefix(n.Obj().Pkg().Path(), modulePath) && n.TypeArgs().Len() > 0 {
			p.allTypes = append(p.allTypes, n)
		}
	}
	cs, err := loadContracts(repo)
	if err != nil {
		return nil, err
	}
	p.contracts = cs
	return p, nil
}

func (p *Program) inModule(fn *ssa.Function) bool {
	root := rootParent(fn)
	if root.Pkg != nil {
		return strings.HasPrefix(root.Pkg.Pkg.Path(), modulePath)
	}
	if o := root.Origin(); o != nil && o.Pkg != nil {
		return strings.HasPrefix(o.Pkg.Pkg.Path(), modulePath)
	}
	if root.Synthetic != "" {
		// wrappers and bound methods: look at the receiver/object package
		if obj := root.Object(); obj != nil && obj.Pkg() != nil {
			return strings.HasPrefix(obj.Pkg().Path(), modulePath)
		}
		if root.Signature.Recv() != nil {
			return typeInModule(root.Signature.Recv().Type())
		}
		if len(root.Params) > 0 {
			return typeInModule(root.Params[0].Type())
		}
	}
	return false
}

func typeInModule(t types.Type) bool {
	if pt, ok := t.(*types.Pointer); ok {
		t = pt.Elem()
	}
	if n, ok := t.(*types.Named); ok && n.Obj().Pkg() != nil {
		return strings.HasPrefix(n.Obj().Pkg().Path(), modulePath)
	}
	return false
}

func (p *Program) contractFor(fn *ssa.Function) *Contract {
	key := funcKey(fn)
	if c, ok := p.contracts.byKey[key]; ok {
		return c
	}
	if o := fn.Origin(); o != nil {
		if c, ok := p.contracts.byKey[funcKey(o)]; ok {
			return c
		}
	}
	return nil
}

// implementers returns the concrete module types whose method set satisfies interface type t.
// It returns nil for interfaces that are not declared in the module (open world).
// ensureRtTypes collects the dynamic types: exactly the operand types of MakeInterface instructions in the module
// (closed world).
func (p *Program) ensureRtTypes() {
	if p.rtTypes != nil {
		return
	}
	p.rtTypes = map[string]bool{}
	for _, fn := range p.allFns {
		for _, b := range fn.Blocks {
			for _, ins := range b.Instrs {
				if mi, ok := ins.(*ssa.MakeInterface); ok {
					k := typeKey(mi.X.Type())
					if !p.rtTypes[k] {
						p.rtTypes[k] = true
						p.rtList = append(p.rtList, mi.X.Type())
					}
				}
			}
		}
	}
}

func (p *Program) implementers(t types.Type) []types.Type {
	it, ok := t.Underlying().(*types.Interface)
	if !ok || it.NumMethods() == 0 {
		return nil
	}
	named, ok := t.(*types.Named)
	if !ok || named.Obj().Pkg() == nil || !strings.HasPrefix(named.Obj().Pkg().Path(), modulePath) {
		return nil
	}
	key := typeKey(t)
	if r, ok := p.implCache[key]; ok {
		return r
	}
	var out []types.Type
	p.ensureRtTypes()
	if false {
		p.rtTypes = map[string]bool{}
		for _, fn := range p.allFns {
			for _, b := range fn.Blocks {
				for _, ins := range b.Instrs {
					if mi, ok := ins.(*ssa.MakeInterface); ok {
						k := typeKey(mi.X.Type())
						if !p.rtTypes[k] {
							p.rtTypes[k] = true
							p.rtList = append(p.rtList, mi.X.Type())
						}
					}
				}
			}
		}
	}
	for _, ct := range p.rtList {
		if _, isIface := ct.Underlying().(*types.Interface); isIface {
			continue
		}
		if types.Implements(ct, it) {
			out = append(out, ct)
		}
	}
	sort.Slice(out, func(i, j int) bool { return typeKey(out[i]) < typeKey(out[j]) })
	if out == nil {
		out = []types.Type{}
	}
	p.implCache[key] = out
	return out
}

func (p *Program) methodOf(t types.Type, m *types.Func) *ssa.Function {
	ms := p.prog.MethodSets.MethodSet(t)
	sel := ms.Lookup(m.Pkg(), m.Name())
	if sel == nil {
		return nil
	}
	return p.prog.MethodValue(sel)
}

// ---------- loops ----------

type loop struct {
	header  *ssa.BasicBlock
	body    map[*ssa.BasicBlock]bool
	ordinal int
}

type loopInfo struct {
	rpo     []*ssa.BasicBlock
	headers map[*ssa.BasicBlock]*loop
	back    map[[2]int]bool
}

func (li *loopInfo) isBackEdge(from, to *ssa.BasicBlock) bool {
	return li.back[[2]int{from.Index, to.Index}]
}

func (p *Program) loopsOf(fn *ssa.Function) *loopInfo {
	if li, ok := p.loopCache[fn]; ok {
		return li
	}
	li := &loopInfo{headers: map[*ssa.BasicBlock]*loop{}, back: map[[2]int]bool{}}
	if len(fn.Blocks) == 0 {
		p.loopCache[fn] = li
		return li
	}
	// back edges: u -> h where h dominates u
	for _, u := range fn.Blocks {
		for _, h := range u.Succs {
			if h.Dominates(u) {
				li.back[[2]int{u.Index, h.Index}] = true
				lp := li.headers[h]
				if lp == nil {
					lp = &loop{header: h, body: map[*ssa.BasicBlock]bool{h: true}}
					li.headers[h] = lp
				}
				// natural loop body: nodes that reach u without passing h
				stack := []*ssa.BasicBlock{u}
				for len(stack) > 0 {
					n := stack[len(stack)-1]
					stack = stack[:len(stack)-1]
					if lp.body[n] {
						continue
					}
					lp.body[n] = true
					stack = append(stack, n.Preds...)
				}
			}
		}
	}
	var hs []*ssa.BasicBlock
	for h := range li.headers {
		hs = append(hs, h)
	}
	sort.Slice(hs, func(i, j int) bool { return hs[i].Index < hs[j].Index })
	for i, h := range hs {
		li.headers[h].ordinal = i + 1
	}
	// reverse postorder ignoring back edges
	seen := map[*ssa.BasicBlock]bool{}
	var post []*ssa.BasicBlock
	var dfs func(b *ssa.BasicBlock)
	dfs = func(b *ssa.BasicBlock) {
		seen[b] = true
		for _, s := range b.Succs {
			if li.isBackEdge(b, s) || seen[s] {
				continue
			}
			dfs(s)
		}
		post = append(post, b)
	}
	dfs(fn.Blocks[0])
	for i := len(post) - 1; i >= 0; i-- {
		li.rpo = append(li.rpo, post[i])
	}
	p.loopCache[fn] = li
	return li
}

// ---------- static write effects ----------

type writeEff struct {
	oldObjects bool // may write objects that existed before the region
	sort       *Sort
}

func addEff(m map[string]*writeEff, name string, old bool, s *Sort) {
	if e, ok := m[name]; ok {
		e.oldObjects = e.oldObjects || old
		if e.sort == nil {
			e.sort = s
		}
		return
	}
	m[name] = &writeEff{old, s}
}

// rootOfAddr walks FieldAddr/IndexAddr chains to the root value and reports the heap map written.
func (p *Program) addrEffect(addr ssa.Value, inRegion func(ssa.Instruction) bool, out map[string]*writeEff) {
	var steps []ssa.Value
	v := addr
	for {
		switch a := v.(type) {
		case *ssa.FieldAddr:
			steps = append(steps, a)
			v = a.X
			continue
		case *ssa.IndexAddr:
			if _, isSlice := a.X.Type().Underlying().(*types.Slice); isSlice {
				// element of a slice: the arr map of the element type
				et := a.X.Type().Underlying().(*types.Slice).Elem()
				fresh := false
				switch d := a.X.(type) {
				case *ssa.MakeSlice:
					fresh = inRegion(d)
				case *ssa.Call:
					if b, ok := d.Call.Value.(*ssa.Builtin); ok && b.Name() == "append" {
						fresh = inRegion(d)
					}
				}
				addEff(out, arrMapName(et), !fresh, arraySort(SInt, TE.SortOf(et)))
				return
			}
			steps = append(steps, a)
			v = a.X
			continue
		}
		break
	}
	// v is the root pointer
	switch r := v.(type) {
	case *ssa.Alloc:
		et := r.Type().Underlying().(*types.Pointer).Elem()
		if _, isStruct := et.Underlying().(*types.Struct); isStruct {
			p.structWrite(et, steps, !inRegion(r), out)
			return
		}
		addEff(out, cellName(r), !inRegion(r), TE.SortOf(et))
		return
	case *ssa.FreeVar:
		if a := p.resolveFreeVar(r); a != nil {
			et := a.Type().Underlying().(*types.Pointer).Elem()
			if _, isStruct := et.Underlying().(*types.Struct); isStruct {
				p.structWrite(et, steps, true, out)
				return
			}
			addEff(out, cellName(a), true, TE.SortOf(et))
			return
		}
	case *ssa.Global:
		return
	}
	pt, ok := v.Type().Underlying().(*types.Pointer)
	if !ok {
		return
	}
	if _, isStruct := pt.Elem().Underlying().(*types.Struct); isStruct {
		p.structWrite(pt.Elem(), steps, true, out)
		return
	}
	// pointer to a scalar of unknown origin
	addEff(out, "cell:*", true, nil)
}

func (p *Program) structWrite(structT types.Type, steps []ssa.Value, old bool, out map[string]*writeEff) {
	st := structT.Underlying().(*types.Struct)
	if len(steps) == 0 {
		for i := 0; i < st.NumFields(); i++ {
			addEff(out, fieldMapName(structT, i), old, TE.SortOf(st.Field(i).Type()))
		}
		return
	}
	// the outermost step is the last in the list
	top := steps[len(steps)-1]
	if fa, ok := top.(*ssa.FieldAddr); ok {
		addEff(out, fieldMapName(structT, fa.Field), old, TE.SortOf(st.Field(fa.Field).Type()))
	}
}

func (p *Program) resolveFreeVar(fv *ssa.FreeVar) *ssa.Alloc {
	fn := fv.Parent()
	mc := p.closureOf[fn]
	if mc == nil {
		return nil
	}
	for i, f := range fn.FreeVars {
		if f == fv && i < len(mc.Bindings) {
			switch b := mc.Bindings[i].(type) {
			case *ssa.Alloc:
				return b
			case *ssa.FreeVar:
				return p.resolveFreeVar(b)
			}
		}
	}
	return nil
}

func (p *Program) instrEffects(ins ssa.Instruction, inRegion func(ssa.Instruction) bool, out map[string]*writeEff) {
	switch in := ins.(type) {
	case *ssa.Store:
		p.addrEffect(in.Addr, inRegion, out)
	case *ssa.MapUpdate:
		mt := in.Map.Type().Underlying().(*types.Map)
		fresh := false
		if mm, ok := in.Map.(*ssa.MakeMap); ok {
			fresh = inRegion(mm)
		}
		addEff(out, mapDomName(mt), !fresh, arraySort(TE.SortOf(mt.Key()), SBool))
		addEff(out, mapValName(mt), !fresh, arraySort(TE.SortOf(mt.Key()), TE.SortOf(mt.Elem())))
		addEff(out, mapSizeName(mt), !fresh, SInt)
	case *ssa.MakeMap:
		mt := in.Type().Underlying().(*types.Map)
		addEff(out, mapDomName(mt), false, arraySort(TE.SortOf(mt.Key()), SBool))
		addEff(out, mapValName(mt), false, arraySort(TE.SortOf(mt.Key()), TE.SortOf(mt.Elem())))
		addEff(out, mapSizeName(mt), false, SInt)
	case *ssa.MakeSlice:
		et := in.Type().Underlying().(*types.Slice).Elem()
		addEff(out, arrMapName(et), false, arraySort(SInt, TE.SortOf(et)))
	case *ssa.Alloc:
		et := in.Type().Underlying().(*types.Pointer).Elem()
		if st, isStruct := et.Underlying().(*types.Struct); isStruct {
			for i := 0; i < st.NumFields(); i++ {
				addEff(out, fieldMapName(et, i), false, TE.SortOf(st.Field(i).Type()))
			}
		} else {
			addEff(out, cellName(in), false, TE.SortOf(et))
		}
	case *ssa.Slice:
		if pt, ok := in.X.Type().Underlying().(*types.Pointer); ok {
			if at, ok := pt.Elem().Underlying().(*types.Array); ok {
				addEff(out, arrMapName(at.Elem()), false, arraySort(SInt, TE.SortOf(at.Elem())))
			}
		}
	case *ssa.Convert:
		if sl, ok := in.Type().Underlying().(*types.Slice); ok {
			addEff(out, arrMapName(sl.Elem()), false, arraySort(SInt, TE.SortOf(sl.Elem())))
		}
	case *ssa.Next:
		if rg, ok := in.Iter.(*ssa.Range); ok {
			addEff(out, iterCellName(rg), !inRegion(rg), SInt)
			if mt, ok := rg.X.Type().Underlying().(*types.Map); ok {
				addEff(out, iterCellName(rg)+".visited", !inRegion(rg), arraySort(TE.SortOf(mt.Key()), SBool))
			}
		}
	case *ssa.Range:
		addEff(out, iterCellName(in), false, SInt)
	case ssa.CallInstruction:
		cc := in.Common()
		p.callEffects(cc, out)
	}
}

func iterCellName(rg *ssa.Range) string {
	return "iter:" + rg.Parent().String() + "#" + rg.Name()
}

func (p *Program) callEffects(cc *ssa.CallCommon, out map[string]*writeEff) {
	merge := func(fn *ssa.Function) {
		for k, v := range p.writeSet(fn) {
			addEff(out, k, v.oldObjects, v.sort)
		}
	}
	// closures passed as arguments may be called by the callee
	for _, a := range cc.Args {
		switch f := a.(type) {
		case *ssa.MakeClosure:
			merge(f.Fn.(*ssa.Function))
		case *ssa.Function:
			merge(f)
		}
	}
	if cc.IsInvoke() {
		for _, it := range p.implementers(cc.Value.Type()) {
			if fn := p.methodOf(it, cc.Method); fn != nil {
				merge(fn)
			}
		}
		return
	}
	switch callee := cc.Value.(type) {
	case *ssa.Function:
		if eff, ok := preludeEffects[funcKey(callee)]; ok {
			for _, e := range eff {
				addEff(out, e.name, false, e.sort)
			}
			return
		}
		merge(callee)
	case *ssa.MakeClosure:
		merge(callee.Fn.(*ssa.Function))
	case *ssa.Builtin:
		if callee.Name() == "append" && len(cc.Args) > 0 {
			et := cc.Args[0].Type().Underlying().(*types.Slice).Elem()
			addEff(out, arrMapName(et), false, arraySort(SInt, TE.SortOf(et)))
		}
	default:
		// call of a function value: phi of closures defined in this function
		if phi, ok := cc.Value.(*ssa.Phi); ok {
			for _, e := range phi.Edges {
				if mc, ok := e.(*ssa.MakeClosure); ok {
					merge(mc.Fn.(*ssa.Function))
				}
			}
		}
		if ex, ok := cc.Value.(*ssa.Extract); ok {
			// function returned by an immediately-invoked closure: include closures created inside it
			if call, ok := ex.Tuple.(*ssa.Call); ok {
				if mc, ok := call.Call.Value.(*ssa.MakeClosure); ok {
					for _, af := range mc.Fn.(*ssa.Function).AnonFuncs {
						merge(af)
					}
				}
			}
		}
	}
}

func (p *Program) writeSet(fn *ssa.Function) map[string]*writeEff {
	if ws, ok := p.wsCache[fn]; ok {
		return ws
	}
	if p.wsBusy[fn] {
		return map[string]*writeEff{}
	}
	p.wsBusy[fn] = true
	out := map[string]*writeEff{}
	if p.inModule(fn) && len(fn.Blocks) > 0 {
		inFn := func(i ssa.Instruction) bool { return true }
		for _, b := range fn.Blocks {
			for _, ins := range b.Instrs {
				p.instrEffects(ins, inFn, out)
			}
		}
	} else if eff, ok := preludeEffects[funcKey(fn)]; ok {
		for _, e := range eff {
			addEff(out, e.name, false, e.sort)
		}
	}
	delete(p.wsBusy, fn)
	p.wsCache[fn] = out
	return out
}

func (p *Program) loopWrites(fr *Frame, lp *loop) map[string]*writeEff {
	out := map[string]*writeEff{}
	inLoop := func(i ssa.Instruction) bool { return lp.body[i.Block()] }
	for b := range lp.body {
		for _, ins := range b.Instrs {
			p.instrEffects(ins, inLoop, out)
		}
	}
	return out
}

// ---------- globals ----------

type RegexInfo struct {
	Name    string
	Pattern string
}

func (x *Exec) globalPtr(g *ssa.Global) *Val {
	et := g.Type().Underlying().(*types.Pointer).Elem()
	if _, isStruct := et.Underlying().(*types.Struct); isStruct {
		// a struct-typed package variable: a pre-existing object with unknown (but stable) field values
		key := g.Pkg.Pkg.Path() + "." + g.Name()
		if v, ok := x.job.globals["&"+key]; ok {
			return v
		}
		x.job.nglob++
		v := &Val{T: IntLit(int64(500 + x.job.nglob)), Typ: g.Type()}
		x.job.globals["&"+key] = v
		return v
	}
	return &Val{Typ: g.Type(), Ptr: &Pointer{kind: pkCell, ref: IntLit(1), objT: et, cell: "glob:" + g.Pkg.Pkg.Path() + "." + g.Name()}}
}

// loadGlobal: package-level variables are assumed never to be reassigned after initialisation (A-GLOBALS).
func (x *Exec) loadGlobal(st *State, g *ssa.Global) *Val {
	x.trusted["A-GLOBALS"] = true
	et := g.Type().Underlying().(*types.Pointer).Elem()
	key := g.Pkg.Pkg.Path() + "." + g.Name()
	if v, ok := x.job.globals[key]; ok {
		return v
	}
	init := x.prog.globInit[key]
	v := x.evalGlobalInit(st, key, et, init)
	x.job.globals[key] = v
	return v
}

func (x *Exec) evalGlobalInit(st *State, key string, t types.Type, init ast.Expr) *Val {
	opaque := func() *Val {
		term := Sym("glob."+key, TE.SortOf(t))
		if f := x.typeFact(&State{alloc: x.job.alloc0}, term, t, 0); f != True {
			x.ctx.assumeGlobal(st, f)
		}
		return &Val{T: term, Typ: t}
	}
	if init == nil {
		return opaque()
	}
	switch e := init.(type) {
	case *ast.CallExpr:
		// regexp.MustCompile("lit")
		if sel, ok := e.Fun.(*ast.SelectorExpr); ok && sel.Sel.Name == "MustCompile" && len(e.Args) == 1 {
			if lit, ok := e.Args[0].(*ast.BasicLit); ok && lit.Kind == token.STRING {
				pat, err := strconv.Unquote(lit.Value)
				if err == nil {
					v := opaque()
					v.Regex = &RegexInfo{Name: key, Pattern: pat}
					x.ctx.assumeGlobal(st, Neq(v.T, IntLit(0)))
					return v
				}
			}
		}
	case *ast.CompositeLit:
		if sl, ok := t.Underlying().(*types.Slice); ok {
			if b, ok := sl.Elem().Underlying().(*types.Basic); ok && b.Info()&types.IsString != 0 {
				var lits []string
				for _, el := range e.Elts {
					bl, ok := el.(*ast.BasicLit)
					if !ok || bl.Kind != token.STRING {
						return opaque()
					}
					s, err := strconv.Unquote(bl.Value)
					if err != nil {
						return opaque()
					}
					lits = append(lits, s)
				}
				// a reserved object below alloc0 holds the elements
				x.job.nglob++
				ref := IntLit(int64(x.job.nglob))
				arr := ConstArr(arraySort(SInt, SStr), StrLit(""))
				for i, s := range lits {
					arr = Store(arr, IntLit(int64(i)), StrLit(s))
					if isASCII(s) {
						x.ctx.assumeGlobal(st, UF("gs.ascii", SBool, StrLit(s)))
					}
				}
				name := arrMapName(sl.Elem())
				base := x.ctx.heapNode(&State{heap: map[string]*HNode{}}, name, arraySort(SInt, SStr))
				x.ctx.assumeGlobal(st, Eq(Select(base.sym, ref), arr))
				return &Val{T: mkSlice(ref, IntLit(0), IntLit(int64(len(lits)))), Typ: t}
			}
		}
		if stt, ok := t.Underlying().(*types.Struct); ok {
			// struct literal with positional basic literals
			if len(e.Elts) == stt.NumFields() {
				var fs []*Term
				okAll := true
				for i, el := range e.Elts {
					bl, ok := el.(*ast.BasicLit)
					if !ok {
						okAll = false
						break
					}
					ft := stt.Field(i).Type()
					switch bl.Kind {
					case token.STRING:
						s, _ := strconv.Unquote(bl.Value)
						fs = append(fs, StrLit(s))
					case token.INT:
						n, _ := strconv.ParseInt(bl.Value, 0, 64)
						fs = append(fs, IntLit(n))
					default:
						okAll = false
					}
					_ = ft
				}
				if okAll {
					return &Val{T: TE.MkStruct(t, fs), Typ: t}
				}
			}
			// keyed struct literal: a function-typed field initialised with a function is not nil
			v := opaque()
			for _, el := range e.Elts {
				kv, ok := el.(*ast.KeyValueExpr)
				if !ok {
					continue
				}
				kid, ok := kv.Key.(*ast.Ident)
				if !ok {
					continue
				}
				switch kv.Value.(type) {
				case *ast.Ident, *ast.FuncLit, *ast.SelectorExpr:
				default:
					continue
				}
				for i := 0; i < stt.NumFields(); i++ {
					if stt.Field(i).Name() != kid.Name {
						continue
					}
					if _, isSig := stt.Field(i).Type().Underlying().(*types.Signature); isSig {
						if id, isId := kv.Value.(*ast.Ident); isId && id.Name == "nil" {
							continue
						}
						x.ctx.assumeGlobal(st, Neq(TE.Field(t, i, v.T), IntLit(0)))
					}
				}
			}
			return v
		}
	}
	return opaque()
}

// typeInvariants returns the invariant clauses declared for the (named) struct type t.
func (p *Program) typeInvariants(t types.Type) []*Clause {
	if pt, ok := t.(*types.Pointer); ok {
		t = pt.Elem()
	}
	n, ok := t.(*types.Named)
	if !ok || n.Obj().Pkg() == nil {
		return nil
	}
	return p.contracts.tinvs[n.Obj().Pkg().Path()+"."+n.Obj().Name()]
}

// loadEnv: go/packages shells out to `go list`; use the offline go1.26.8 toolchain regardless of the caller's environment.
func loadEnv() []string {
	var env []string
	for _, e := range os.Environ() {
		if strings.HasPrefix(e, "GOFLAGS=") || strings.HasPrefix(e, "GOPROXY=") || strings.HasPrefix(e, "GOTOOLCHAIN=") || strings.HasPrefix(e, "PATH=") || strings.HasPrefix(e, "GOSUMDB=") {
			continue
		}
		env = append(env, e)
	}
	return append(env, "PATH=/opt/veriftools/go1.26.8/bin:"+os.Getenv("PATH"), "GOFLAGS=-mod=mod", "GOPROXY=off", "GOSUMDB=off", "GOTOOLCHAIN=local")
}

func isASCII(s string) bool {
	for i := 0; i < len(s); i++ {
		if s[i] >= 0x80 {
			return false
		}
	}
	return true
}
