package main

import (
	"sync/atomic"
	"path/filepath"
	"context"
	"flag"
	"fmt"
	"go/parser"
	"go/ast"
	"os"
	"sort"
	"strings"
	"sync"
	"time"

	"golang.org/x/tools/go/ssa"
)

func parserParseExpr(s string) (ast.Expr, error) { return parser.ParseExpr(s) }

func usage() {
	fmt.Fprintln(os.Stderr, `usage:
  govc fn [-repo DIR] [-t ms] [-keep] [-v] <substring>...   verify functions whose key contains a substring
  govc check -p Cnn [-tier quick|thorough]                 run the registered check of a property
  govc list                                                 list contracts and properties`)
	os.Exit(2)
}

func main() {
	// go/packages resolves `go` through the process PATH: use the offline go1.26.8 toolchain
	os.Setenv("PATH", "/opt/veriftools/go1.26.8/bin:"+os.Getenv("PATH"))
	if len(os.Args) < 2 {
		usage()
	}
	switch os.Args[1] {
	case "fn":
		cmdFn(os.Args[2:])
	case "check":
		cmdCheck(os.Args[2:])
	case "list":
		cmdList(os.Args[2:])
	case "regex":
		cmdRegex(os.Args[2:])
	case "replay":
		cmdReplay(os.Args[2:])
	case "selftest":
		cmdSelftest(os.Args[2:])
	default:
		usage()
	}
}

func cmdFn(args []string) {
	fs := flag.NewFlagSet("fn", flag.ExitOnError)
	repo := fs.String("repo", "/repo", "repository root")
	tmo := fs.Int("t", 30000, "per-obligation timeout (ms)")
	keep := fs.Bool("keep", false, "keep SMT scripts in /tmp/govc-smt")
	verbose := fs.Bool("v", false, "print every obligation")
	explain := fs.Bool("explain", false, "for undecided obligations, show a model of the quantifier-free part")
	fs.Parse(args)
	t0 := time.Now()
	p, err := loadProgram(*repo)
	if err != nil {
		fmt.Fprintln(os.Stderr, "load:", err)
		os.Exit(2)
	}
	fmt.Fprintf(os.Stderr, "loaded in %.1fs\n", time.Since(t0).Seconds())
	var fns []*ssa.Function
	for key, fn := range p.funcs {
		for _, pat := range fs.Args() {
			if strings.HasPrefix(pat, "=") {
				if strings.HasSuffix(key, pat[1:]) && strings.HasSuffix(key, "/"+pat[1:]) {
					fns = append(fns, fn)
					break
				}
				continue
			}
			if strings.Contains(key, pat) {
				fns = append(fns, fn)
				break
			}
		}
	}
	sort.Slice(fns, func(i, j int) bool { return funcKey(fns[i]) < funcKey(fns[j]) })
	var lemmas []*Contract
	for key, c := range p.contracts.byKey {
		if c.Lemma {
			for _, pat := range fs.Args() {
				if strings.Contains(key, pat) {
					lemmas = append(lemmas, c)
				}
			}
		}
	}
	jobs := p.runJobsL(fns, lemmas, SolverCfg{TimeoutMs: *tmo, Dir: "/tmp/govc-smt", Keep: *keep})
	bad := 0
	for _, j := range jobs {
		fmt.Println(j.summary(), fmt.Sprintf("(gen %.2fs)", j.GenSecs))
		if j.Err != "" {
			fmt.Println("   ERROR:", j.Err)
			bad++
		}
		for _, o := range j.Obls {
			if o.Kind == "known-excl" {
				continue
			}
			if o.Kind == "pre-sat" {
				if o.Status == "proved" {
					fmt.Printf("   VACUOUS (unsatisfiable) %s\n", o.Name)
					if o.Group == "" {
						bad++
					}
				}
				continue
			}
			if o.Status != "proved" || *verbose {
				fmt.Printf("   %-8s %s  [%s] %s  (%s, %.2fs)\n", o.Status, o.Name, o.Pos, o.Note, o.Solver, o.Secs)
				if o.Status != "proved" {
					bad++
					if o.Conj != nil {
						cj := conjuncts(o.Goal)
						for k, v := range o.Conj {
							if !v && k < len(cj) {
								fmt.Printf("            false conjunct %d: %s\n", k+1, cj[k].StringN(300))
							}
						}
					}
					if o.Output != "" {
						fmt.Printf("            %s\n", firstLines(o.Output, 12))
					}
					if *explain && o.Status == "unknown" {
						script, probes := explainScript(j, o)
						ctx, cancel := context.WithTimeout(context.Background(), 30*time.Second)
						out, _ := runSolver(ctx, "z3-new", []string{"-in"}, script)
						cancel()
						ans, rest := solverAnswer(out)
						fmt.Printf("            explain (quantifier-free part): %s\n", ans)
						if ans == "sat" {
							vals := pairValues(rest)
							for k, p := range probes {
								if k < len(vals) {
									fmt.Printf("              %s  =  %s\n", p.StringN(explainWidth()), vals[k])
								}
							}
						}
					}
				}
			}
		}
		if len(j.Unmodelled) > 0 {
			fmt.Println("   unmodelled:", j.Unmodelled)
		}
	}
	if bad > 0 {
		os.Exit(1)
	}
}

// runJobs generates VCs sequentially (the term store is not concurrent) and solves in parallel.
func (p *Program) runJobs(fns []*ssa.Function, cfg SolverCfg) []*Job {
	return p.runJobsL(fns, nil, cfg)
}

func (p *Program) runJobsL(fns []*ssa.Function, lemmas []*Contract, cfg SolverCfg) []*Job {
	var jobs []*Job
	for _, c := range lemmas {
		j := p.newLemmaJob(c)
		t0 := time.Now()
		p.generate(j)
		j.GenSecs = time.Since(t0).Seconds()
		jobs = append(jobs, j)
	}
	for _, fn := range fns {
		j := p.newJob(fn)
		t0 := time.Now()
		p.generate(j)
		j.GenSecs = time.Since(t0).Seconds()
		if os.Getenv("GOVC_PROGRESS") != "" {
			fmt.Fprintf(os.Stderr, "generated %s: %d obligations, %d facts in %.2fs (%s)\n", j.Name, len(j.Obls), len(j.Facts), j.GenSecs, j.Stats)
		}
		jobs = append(jobs, j)
	}
	// scripts must be built sequentially as well (printing touches shared tables); solving is parallel
	type prepared struct {
		j *Job
	}
	var wg sync.WaitGroup
	sem := make(chan struct{}, 14)
	var mu sync.Mutex
	_ = mu
	type chunk struct {
		j      *Job
		todo   []*Obligation
		script string
	}
	todos := make([][]*Obligation, len(jobs))
	for i, j := range jobs {
		todos[i] = pendingObls(j)
	}
	// stage 1a: hypotheses without their quantified parts (the deterministic instances remain); stage 1b: with them
	for _, dropQ := range []bool{true, false} {
		if os.Getenv("GOVC_NOSTAGE1") != "" {
			break
		}
		var chunks []chunk
		for i, j := range jobs {
			var pend []*Obligation
			for _, o := range todos[i] {
				if o.Status == "proved" || (o.Status == "failed" && o.Kind == "pre-sat") {
					continue
				}
				if dropQ && o.Kind == "pre-sat" {
					continue
				}
				pend = append(pend, o)
			}
			for k := 0; k < len(pend); k += chunkSize {
				end := k + chunkSize
				if end > len(pend) {
					end = len(pend)
				}
				part := pend[k:end]
				chunks = append(chunks, chunk{j, part, buildIncremental(j, part, incrementalTimeoutMs, dropQ)})
			}
		}
		for _, c := range chunks {
			wg.Add(1)
			go func(c chunk) {
				defer wg.Done()
				sem <- struct{}{}
				defer func() { <-sem }()
				solvePrepared(c.j, c.script, c.todo, cfg)
				if dropQ {
					for _, o := range c.todo {
						if o.Status == "proved" {
							o.Solver = "z3-5.1.0-noext (instances only)"
						}
					}
				}
			}(c)
		}
		wg.Wait()
	}
	// portfolio pass (script building is sequential, solver runs parallel)
	type pf struct {
		j      *Job
		o      *Obligation
		script string
		split  []string
		sliced []string
		nq     string
	}
	var pfs []pf
	// obligations of open known findings end undischarged on the unchanged tree: they say nothing about whether this
	// run is on a broken tree and must not switch the others to the reduced budget
	listed := map[string]bool{}
	for _, f := range allFindings {
		if f.Status == "open" {
			listed[f.Obligation] = true
		}
	}
	for i, j := range jobs {
		for _, o := range todos[i] {
			if o.Status == "proved" || (o.Status == "failed" && (o.Model != nil || o.Kind == "pre-sat")) {
				continue
			}
			if o.Kind == "pre-sat" && o.Group != "" {
				continue // reachability probe: only a quick `unsat` matters
			}
			if cfg.Quick[o.Name] || listed[o.Name] {
				o.Status = "unknown" // listed as undecided or as an open known finding: the incremental stage was its one attempt
				continue
			}
			q := pf{j: j, o: o, script: buildSingle(j, o, cfg.TimeoutMs, true)}
			if o.Kind != "pre-sat" && len(j.Facts) > 400 {
				q.sliced = append(q.sliced, buildSliced(j, o, 5000, 2))
				if os.Getenv("GOVC_SLICE3") != "" {
					q.sliced = append(q.sliced, buildSliced(j, o, 20000, 3), buildSliced(j, o, 20000, 4))
				}
			}
			if o.Kind != "pre-sat" {
				q.nq = buildSingleQ(j, o, cfg.TimeoutMs, false, true)
			}
			for _, c := range splitCases(j) {
				q.split = append(q.split, buildSingle(j, o, cfg.TimeoutMs, true, c...))
			}
			pfs = append(pfs, q)
		}
	}
	psem := make(chan struct{}, 4) // each portfolio entry starts four solver processes
	// Once two obligations have ended undischarged the verdict of the run is settled (a violation is reported); the
	// remaining ones still get their turn, but with a sixth of the budget, so that a check on a broken tree ends in
	// minutes rather than in budget x number of broken obligations.
	var bad int32
	fullCfg := cfg
	for _, q := range pfs {
		wg.Add(1)
		go func(q pf) {
			defer wg.Done()
			psem <- struct{}{}
			defer func() { <-psem }()
			cfg := fullCfg
			if q.o.Kind == "pre-sat" && cfg.TimeoutMs > 20000 {
				// vacuity guards expect `sat`; an answer that does not come quickly is as good as none
				cfg.TimeoutMs = 20000
			}
			reduced := false
			if atomic.LoadInt32(&bad) >= 2 {
				cfg.TimeoutMs = fullCfg.TimeoutMs / 6
				reduced = true
			}
			defer func() {
				if q.o.Status != "proved" && q.o.Kind != "pre-sat" && !listed[q.o.Name] {
					atomic.AddInt32(&bad, 1)
					if reduced && q.o.Status == "unknown" {
						q.o.Status = "skipped"
					}
				}
			}()
			// first a goal-directed slice of the hypotheses (sound: only drops facts); `unsat` settles it
			for _, sl := range q.sliced {
				tmp := &Obligation{Name: q.o.Name, Kind: q.o.Kind}
				if cfg.Keep {
					os.MkdirAll(cfg.Dir, 0o755)
					os.WriteFile(filepath.Join(cfg.Dir, sanitizeFile(q.o.Name)+fmt.Sprintf(".sliced%d.smt2", len(sl))), []byte(sl), 0o644)
				}
				ctx, cancel := context.WithTimeout(context.Background(), 7*time.Second)
				out, _ := runSolver(ctx, "z3-new", []string{"-in", "smt.array.extensional=false"}, sl)
				cancel()
				if os.Getenv("GOVC_PROGRESS") != "" {
				a, _ := solverAnswer(out)
				fmt.Fprintf(os.Stderr, "sliced %s: %d asserts -> %s\n", q.o.Name, strings.Count(sl, "(assert"), a)
			}
			if ans, _ := solverAnswer(out); ans == "unsat" && q.o.Kind != "pre-sat" {
					tmp.Status = "proved"
					q.o.Status, q.o.Solver = "proved", "z3-5.1.0-noext (sliced hypotheses)"
					break
				}
			}
			if q.o.Status == "proved" {
				return
			}
			if q.nq != "" {
				// hypotheses reduced to their deterministic instances: only `unsat` is used
				if cfg.Keep {
					os.MkdirAll(cfg.Dir, 0o755)
					os.WriteFile(filepath.Join(cfg.Dir, sanitizeFile(q.o.Name)+".nq.smt2"), []byte(q.nq), 0o644)
				}
				type ans struct {
					name, a string
					secs    float64
				}
				ch := make(chan ans, 3)
				ctx, cancel := context.WithTimeout(context.Background(), time.Duration(cfg.TimeoutMs+2000)*time.Millisecond)
				for _, variant := range []int{0, 1, 2} {
					go func(variant int) {
						inc := variant == 1
						t0 := time.Now()
						sc, name := q.nq, "z3-5.1.0-noext (instances only)"
						if inc {
							sc, name = strings.Replace(sc, "(check-sat)", "(push 1)\n(check-sat)", 1), "z3-5.1.0-noext-inc (instances only)"
						}
						if variant == 2 {
							// the day-number function left uninterpreted (sound: fewer facts); most obligations only need
							// "the day number moved by k"
							sc, name = opaqueCalendar(sc), "z3-5.1.0-noext-opaquecal (instances only)"
						}
						out, _ := runSolver(ctx, "z3-new", []string{"-in", "smt.array.extensional=false"}, sc)
						a, _ := solverAnswer(out)
						ch <- ans{name, a, time.Since(t0).Seconds()}
					}(variant)
				}
				// the full portfolio (with the quantified hypotheses) runs at the same time: whichever settles it first
				pfDone := make(chan *Obligation, 1)
				go func() {
					tmp := &Obligation{Name: q.o.Name, Kind: q.o.Kind, Job: q.o.Job, NFact: q.o.NFact, PC: q.o.PC, Goal: q.o.Goal, Pos: q.o.Pos, Note: q.o.Note}
					portfolioScript(q.j, tmp, q.script, cfg)
					pfDone <- tmp
				}()
				pending := 3
				var pfRes *Obligation
				for pending > 0 || pfRes == nil {
					select {
					case r := <-ch:
						pending--
						if r.a == "unsat" {
							q.o.Status, q.o.Solver, q.o.Secs = "proved", r.name, r.secs
						}
					case pfRes = <-pfDone:
						if pfRes.Status == "proved" && q.o.Status != "proved" {
							q.o.Status, q.o.Solver, q.o.Secs = "proved", pfRes.Solver, pfRes.Secs
						}
					}
					if q.o.Status == "proved" {
						break
					}
				}
				cancel()
				if q.o.Status == "proved" {
					return
				}
				if pfRes == nil {
					pfRes = <-pfDone
				}
				q.o.Status, q.o.Solver, q.o.Secs, q.o.Output, q.o.Model = pfRes.Status, pfRes.Solver, pfRes.Secs, pfRes.Output, pfRes.Model
			} else {
				portfolioScript(q.j, q.o, q.script, cfg)
			}
			if q.o.Status == "unknown" && len(q.split) > 0 {
				// all cases unsat => proved; any case sat => failed with that model
				all := true
				for _, sc := range q.split {
					tmp := &Obligation{Name: q.o.Name, Kind: q.o.Kind}
					portfolioScript(q.j, tmp, sc, cfg)
					if tmp.Status == "failed" {
						q.o.Status, q.o.Solver, q.o.Output, q.o.Model = "failed", tmp.Solver+" (case split)", tmp.Output, tmp.Model
						all = false
						break
					}
					if tmp.Status != "proved" {
						all = false
					}
					q.o.Secs += tmp.Secs
				}
				if all {
					q.o.Status, q.o.Solver = "proved", "portfolio (case split over finite domains)"
				}
			}
		}(q)
	}
	wg.Wait()
	// Second chance for `unknown` (never for `failed`): an obligation that no solver settled while many solver
	// processes were competing for the machine is tried once more, alone, with twice the budget. On the unchanged tree
	// this turns a load-induced `unknown` back into a proof; after a change that breaks a property it costs a few
	// minutes at most (only the first few unknown obligations are retried).
	if os.Getenv("GOVC_NORETRY") == "" && atomic.LoadInt32(&bad) <= 2 {
		retried := 0
		for _, q := range pfs {
			if q.o.Status != "unknown" || q.o.Kind == "pre-sat" || retried >= 4 || listed[q.o.Name] {
				continue
			}
			retried++
			cfg2 := cfg
			cfg2.TimeoutMs = cfg.TimeoutMs * 2
			if q.nq != "" {
				ctx, cancel := context.WithTimeout(context.Background(), time.Duration(cfg2.TimeoutMs+2000)*time.Millisecond)
				nq2 := strings.Replace(q.nq, fmt.Sprintf("(set-option :timeout %d)", cfg.TimeoutMs), fmt.Sprintf("(set-option :timeout %d)", cfg2.TimeoutMs), 1)
				// the same three variants as in the main pass (some obligations are settled by one of them only)
				variants := []struct{ name, sc string }{
					{"z3-5.1.0-noext (instances only, retry)", nq2},
					{"z3-5.1.0-noext-inc (instances only, retry)", strings.Replace(nq2, "(check-sat)", "(push 1)\n(check-sat)", 1)},
					{"z3-5.1.0-noext-opaquecal (instances only, retry)", opaqueCalendar(nq2)},
				}
				ch := make(chan string, len(variants))
				for _, v := range variants {
					go func(name, sc string) {
						out, _ := runSolver(ctx, "z3-new", []string{"-in", "smt.array.extensional=false"}, sc)
						if a, _ := solverAnswer(out); a == "unsat" {
							ch <- name
						} else {
							ch <- ""
						}
					}(v.name, v.sc)
				}
				won := ""
				for range variants {
					if n := <-ch; n != "" {
						won = n
						break
					}
				}
				cancel()
				if won != "" {
					q.o.Status, q.o.Solver = "proved", won
					continue
				}
			}
			tmp := &Obligation{Name: q.o.Name, Kind: q.o.Kind, Job: q.o.Job, NFact: q.o.NFact, PC: q.o.PC, Goal: q.o.Goal, Pos: q.o.Pos, Note: q.o.Note}
			portfolioScript(q.j, tmp, buildSingle(q.j, q.o, cfg2.TimeoutMs, true), cfg2)
			if tmp.Status == "proved" {
				q.o.Status, q.o.Solver, q.o.Secs = "proved", tmp.Solver+" (retry)", tmp.Secs
			} else if tmp.Status == "failed" {
				q.o.Status, q.o.Solver, q.o.Output, q.o.Model = "failed", tmp.Solver, tmp.Output, tmp.Model
			}
		}
	}
	if os.Getenv("GOVC_PROGRESS") != "" {
		for _, q := range pfs {
			fmt.Fprintf(os.Stderr, "late %s [%s] %s %.2fs\n", q.o.Name, q.o.Status, q.o.Solver, q.o.Secs)
		}
	}
	return jobs
}

func truncate(s string, n int) string {
	if len(s) > n {
		return s[:n] + "..."
	}
	return s
}

// pairValues returns the values of a get-value answer in order.
func pairValues(s string) []string {
	var out []string
	s = strings.TrimSpace(s)
	depth := 0
	start := -1
	for i, c := range s {
		switch c {
		case '(':
			depth++
			if depth == 2 {
				start = i
			}
		case ')':
			if depth == 2 && start >= 0 {
				_, v := splitPair(s[start+1 : i])
				out = append(out, v)
				start = -1
			}
			depth--
		}
	}
	return out
}

func explainWidth() int {
	if os.Getenv("GOVC_EXPLAIN_WIDE") != "" {
		return 100000
	}
	return 160
}
