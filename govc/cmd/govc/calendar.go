package main

// A-CAL: proleptic Gregorian calendar model for cloud.google.com/go/civil and time.Time.

import (
	"go/token"
	"go/types"

	"golang.org/x/tools/go/ssa"
)

const calendarPreamble = `(define-fun cal.leap ((y Int)) Bool (and (= (mod y 4) 0) (or (not (= (mod y 100) 0)) (= (mod y 400) 0))))
(define-fun cal.dim ((y Int) (m Int)) Int (ite (= m 2) (ite (cal.leap y) 29 28) (ite (or (= m 4) (= m 6) (= m 9) (= m 11)) 30 31)))
(define-fun cal.valid ((y Int) (m Int) (d Int)) Bool (and (<= 1 m) (<= m 12) (<= 1 d) (<= d (cal.dim y m))))
(define-fun cal.dby ((y Int)) Int (+ (* 365 y) (div (+ y 3) 4) (- (div (+ y 99) 100)) (div (+ y 399) 400)))
(define-fun cal.dbm0 ((m Int)) Int (ite (<= m 1) 0 (ite (= m 2) 31 (ite (= m 3) 59 (ite (= m 4) 90 (ite (= m 5) 120 (ite (= m 6) 151 (ite (= m 7) 181 (ite (= m 8) 212 (ite (= m 9) 243 (ite (= m 10) 273 (ite (= m 11) 304 334))))))))))))
(define-fun cal.dbm ((y Int) (m Int)) Int (+ (cal.dbm0 m) (ite (and (> m 2) (cal.leap y)) 1 0)))
(define-fun cal.dn ((y Int) (m Int) (d Int)) Int (+ (cal.dby y) (cal.dbm y m) (- d 1)))
(define-fun cal.wd ((n Int)) Int (mod (+ n 6) 7))
`

func calLeap(y *Term) *Term        { return App("cal.leap", SBool, y) }
func calDim(y, m *Term) *Term      { return App("cal.dim", SInt, y, m) }
func calValid(y, m, d *Term) *Term { return App("cal.valid", SBool, y, m, d) }
func calDby(y *Term) *Term         { return App("cal.dby", SInt, y) }
func calDn(y, m, d *Term) *Term    { return App("cal.dn", SInt, y, m, d) }
func calWd(n *Term) *Term          { return App("cal.wd", SInt, n) } // 0 = Sunday ... 6 = Saturday (Go's time.Weekday)

func civilDateFields(v *Val) (y, m, d *Term) {
	return TE.Field(v.Typ, 0, v.T), TE.Field(v.Typ, 1, v.T), TE.Field(v.Typ, 2, v.T)
}

// dateFromDn introduces the (unique) valid date with the given day number.
func (x *Exec) dateFromDn(st *State, n *Term, hint string) (y, m, d *Term) {
	y = UF("cal.year_of", SInt, n)
	m = UF("cal.month_of", SInt, n)
	d = UF("cal.day_of", SInt, n)
	x.ctx.assumeGlobal(st, And(calValid(y, m, d), Eq(calDn(y, m, d), n),
		// bracketing facts that make the year unique for the solver
		Le(calDby(y), n), Lt(n, calDby(Add(y, IntLit(1))))))
	return
}

func init() {
	prelude["cloud.google.com/go/civil.(Date).IsValid"] = func(x *Exec, st *State, callee *ssa.Function, args []*Val, pos token.Pos) *Val {
		x.trusted["A-CAL"] = true
		y, m, d := civilDateFields(args[0])
		return &Val{T: calValid(y, m, d), Typ: boolT}
	}
	prelude["cloud.google.com/go/civil.(Date).AddDays"] = func(x *Exec, st *State, callee *ssa.Function, args []*Val, pos token.Pos) *Val {
		x.trusted["A-CAL"] = true
		y, m, d := civilDateFields(args[0])
		n := Add(calDn(y, m, d), args[1].T)
		ny, nm, nd := x.dateFromDn(st, n, "adddays")
		// for an invalid receiver civil normalises first; only valid receivers are modelled
		res := x.freshVal(st, "adddays", args[0].Typ)
		ry, rm, rd := civilDateFields(res)
		x.ctx.assume(st, Implies(calValid(y, m, d), And(Eq(ry, ny), Eq(rm, nm), Eq(rd, nd))))
		x.ctx.assume(st, calValid(ry, rm, rd))
		return res
	}
	prelude["cloud.google.com/go/civil.(Date).In"] = func(x *Exec, st *State, callee *ssa.Function, args []*Val, pos token.Pos) *Val {
		x.trusted["A-CAL"] = true
		y, m, d := civilDateFields(args[0])
		rt := callee.Signature.Results().At(0).Type()
		t := UF("time.ofdate", TE.SortOf(rt), y, m, d)
		n := calDn(y, m, d)
		x.ctx.assumeGlobal(st, Implies(calValid(y, m, d), And(
			Eq(UF("time.dn", SInt, t), n),
			Eq(UF("time.year", SInt, t), y), Eq(UF("time.month", SInt, t), m), Eq(UF("time.day", SInt, t), d))))
		return &Val{T: t, Typ: rt}
	}
	prelude["time.(Time).Weekday"] = func(x *Exec, st *State, callee *ssa.Function, args []*Val, pos token.Pos) *Val {
		x.trusted["A-CAL"] = true
		n := UF("time.dn", SInt, args[0].T)
		return &Val{T: calWd(n), Typ: callee.Signature.Results().At(0).Type()}
	}
	prelude["time.(Time).ISOWeek"] = func(x *Exec, st *State, callee *ssa.Function, args []*Val, pos token.Pos) *Val {
		x.trusted["A-CAL"] = true
		n := UF("time.dn", SInt, args[0].T)
		// Monday-based weekday 0..6, Thursday of this week, its year, week number by the Thursday rule
		wdm := EMod(Add(n, IntLit(5)), IntLit(7))
		th := Add(Sub(n, wdm), IntLit(3))
		wy := UF("cal.year_of", SInt, th)
		x.ctx.assumeGlobal(st, And(Le(calDby(wy), th), Lt(th, calDby(Add(wy, IntLit(1))))))
		week := Add(EDiv(Sub(th, calDby(wy)), IntLit(7)), IntLit(1))
		return tuple2(callee.Signature.Results(), &Val{T: wy, Typ: intT}, &Val{T: week, Typ: intT})
	}
	for _, g := range []struct{ name, uf string }{{"Year", "time.year"}, {"Day", "time.day"}, {"Hour", "time.hour"}, {"Minute", "time.minute"}} {
		g := g
		prelude["time.(Time)."+g.name] = func(x *Exec, st *State, callee *ssa.Function, args []*Val, pos token.Pos) *Val {
			x.trusted["A-CAL"] = true
			v := UF(g.uf, SInt, args[0].T)
			x.assumeGoTime(st, args[0].T)
			return &Val{T: v, Typ: intT}
		}
	}
	prelude["time.(Time).Month"] = func(x *Exec, st *State, callee *ssa.Function, args []*Val, pos token.Pos) *Val {
		x.trusted["A-CAL"] = true
		v := UF("time.month", SInt, args[0].T)
		x.assumeGoTime(st, args[0].T)
		return &Val{T: v, Typ: callee.Signature.Results().At(0).Type()}
	}
	prelude["cloud.google.com/go/civil.ParseDate"] = func(x *Exec, st *State, callee *ssa.Function, args []*Val, pos token.Pos) *Val {
		x.trusted["A-CAL"] = true
		x.trusted["A-CODEC"] = true
		parts := x.job.concatParts[args[0].T.id]
		rt := callee.Signature.Results()
		if len(parts) == 5 {
			l1, ok1 := literalOf(parts[1])
			l2, ok2 := literalOf(parts[3])
			if ok1 && ok2 && l1 == "-" && l2 == "-" {
				g1, g2, g3 := parts[0], parts[2], parts[4]
				y, m, d := strNum(g1), strNum(g2), strNum(g3)
				shape := And(strIsDigits(g1), Eq(strLen(g1), IntLit(4)), strIsDigits(g2), Eq(strLen(g2), IntLit(2)), strIsDigits(g3), Eq(strLen(g3), IntLit(2)))
				okT := And(shape, calValid(y, m, d))
				res := x.freshVal(st, "parsedate", rt.At(0).Type())
				ry, rm, rd := civilDateFields(res)
				x.ctx.assume(st, Implies(okT, And(Eq(ry, y), Eq(rm, m), Eq(rd, d))))
				// for strings of this shape the only failure is an out-of-range month or day
				okSym := Fresh("parsedate.ok", SBool)
				x.ctx.assume(st, Implies(shape, Eq(okSym, calValid(y, m, d))))
				e := x.freshError(st, "time.Parse")
				return tuple2(rt, res, &Val{T: Ite(okSym, nilIface, e), Typ: errT})
			}
		}
		return x.unmodelled(st, callee, args)
	}
	specBuiltins["validdate"] = func(ev *evaluator, args []*Val) *Val {
		return &Val{T: calValid(args[0].T, args[1].T, args[2].T), Typ: boolT}
	}
	specBuiltins["dn"] = func(ev *evaluator, args []*Val) *Val {
		return &Val{T: calDn(args[0].T, args[1].T, args[2].T), Typ: intT}
	}
	// dby(y): days before 1 January of year y; yearof(n): the year that contains day number n
	specBuiltins["dby"] = func(ev *evaluator, args []*Val) *Val {
		return &Val{T: calDby(args[0].T), Typ: intT}
	}
	specBuiltins["yearof"] = func(ev *evaluator, args []*Val) *Val {
		n := args[0].T
		y := UF("cal.year_of", SInt, n)
		if !hasFreeBound(n) {
			ev.x.ctx.assumeGlobal(ev.st, And(Le(calDby(y), n), Lt(n, calDby(Add(y, IntLit(1))))))
		}
		return &Val{T: y, Typ: intT}
	}
	specBuiltins["dim"] = func(ev *evaluator, args []*Val) *Val {
		return &Val{T: calDim(args[0].T, args[1].T), Typ: intT}
	}
	specBuiltins["gotime_year"] = func(ev *evaluator, args []*Val) *Val {
		ev.x.assumeGoTime(ev.st, args[0].T)
		return &Val{T: UF("time.year", SInt, args[0].T), Typ: intT}
	}
	specBuiltins["gotime_month"] = func(ev *evaluator, args []*Val) *Val {
		ev.x.assumeGoTime(ev.st, args[0].T)
		return &Val{T: UF("time.month", SInt, args[0].T), Typ: intT}
	}
	specBuiltins["gotime_day"] = func(ev *evaluator, args []*Val) *Val {
		ev.x.assumeGoTime(ev.st, args[0].T)
		return &Val{T: UF("time.day", SInt, args[0].T), Typ: intT}
	}
	specBuiltins["gotime_hour"] = func(ev *evaluator, args []*Val) *Val {
		ev.x.assumeGoTime(ev.st, args[0].T)
		return &Val{T: UF("time.hour", SInt, args[0].T), Typ: intT}
	}
	specBuiltins["gotime_minute"] = func(ev *evaluator, args []*Val) *Val {
		ev.x.assumeGoTime(ev.st, args[0].T)
		return &Val{T: UF("time.minute", SInt, args[0].T), Typ: intT}
	}
}

// assumeGoTime: the calendar fields of any time.Time value form a valid date and wall-clock time.
func (x *Exec) assumeGoTime(st *State, t *Term) {
	key := [2]int{t.id, -7}
	if x.typed[key] {
		return
	}
	x.typed[key] = true
	y, m, d := UF("time.year", SInt, t), UF("time.month", SInt, t), UF("time.day", SInt, t)
	h, mi := UF("time.hour", SInt, t), UF("time.minute", SInt, t)
	x.ctx.assumeGlobal(st, And(calValid(y, m, d), Le(IntLit(0), h), Le(h, IntLit(23)), Le(IntLit(0), mi), Le(mi, IntLit(59))))
}

var _ = types.Typ
