package main

// `govc check -p Cnn`: run all obligations of a property, write evidence, print VIOLATION lines.

import (
	"encoding/json"
	"flag"
	"fmt"
	"os"
	"path/filepath"
	"sort"
	"strconv"
	"strings"
	"time"
	"unicode"

	"golang.org/x/tools/go/ssa"
)

func simpleFold(r rune) rune { return unicode.SimpleFold(r) }

type PropCfg struct {
	Level      string   `json:"level"` // proof | other
	Funcs      []string `json:"funcs"` // function keys relative to the module path
	Lemmas     []string `json:"lemmas"` // lemma keys: <pkg path relative to module>.lemma:<name>
	Regex      []struct {
		Name string `json:"name"` // package-relative variable, e.g. klog.timePattern ; or func key + "#" + ordinal for local patterns
		Spec string `json:"spec"`
		Anchored bool `json:"anchored,omitempty"`
		Domain string `json:"domain,omitempty"`
	} `json:"regex"`
	Bounded     []string `json:"bounded"`     // names of bounded stand-ins (run by external commands)
	Assumptions []string `json:"assumptions"` // extra assumption text for the evidence file
	Scope       string   `json:"scope"`
}

type Finding struct {
	Property   string `json:"property"`
	Obligation string `json:"obligation"`
	Status     string `json:"status"` // open | fixed
	Commit     string `json:"commit,omitempty"`
	What       string `json:"what"`
	Witness    string `json:"witness,omitempty"`
	Class      string `json:"class,omitempty"` // contract expression over the function's parameters describing the known failing inputs
}

var allFindings []*Finding

// Undecided obligations: true statements that the contracts in place cannot prove on the unchanged tree.
// They are reported in the evidence, never counted as discharged and never reported as violations.
type Undecided struct {
	Property   string `json:"property"`
	Obligation string `json:"obligation"`
	Reason     string `json:"reason"`
}

func loadUndecided() map[string]*Undecided {
	out := map[string]*Undecided{}
	data, err := os.ReadFile(filepath.Join(verifRoot(), "undecided.jsonl"))
	if err != nil {
		return out
	}
	for _, line := range strings.Split(string(data), "\n") {
		line = strings.TrimSpace(line)
		if line == "" || strings.HasPrefix(line, "#") {
			continue
		}
		var u Undecided
		if err := json.Unmarshal([]byte(line), &u); err == nil {
			out[u.Property+"|"+u.Obligation] = &u
		}
	}
	return out
}

func verifRoot() string {
	if d := os.Getenv("GOVC_ROOT"); d != "" {
		return d
	}
	exe, err := os.Executable()
	if err == nil {
		return filepath.Dir(filepath.Dir(exe))
	}
	return "/verif"
}

func loadProps() map[string]*PropCfg {
	data, err := os.ReadFile(filepath.Join(verifRoot(), "props.json"))
	if err != nil {
		fmt.Fprintln(os.Stderr, "cannot read props.json:", err)
		os.Exit(2)
	}
	var m map[string]*PropCfg
	if err := json.Unmarshal(data, &m); err != nil {
		fmt.Fprintln(os.Stderr, "props.json:", err)
		os.Exit(2)
	}
	return m
}

func loadFindings() []*Finding {
	var out []*Finding
	data, err := os.ReadFile(filepath.Join(verifRoot(), "known_findings.jsonl"))
	if err != nil {
		return nil
	}
	for _, line := range strings.Split(string(data), "\n") {
		line = strings.TrimSpace(line)
		if line == "" || strings.HasPrefix(line, "#") {
			continue
		}
		var f Finding
		if err := json.Unmarshal([]byte(line), &f); err == nil {
			out = append(out, &f)
		}
	}
	return out
}

type checkResult struct {
	jobs       []*Job
	regex      []*RegexObl
	structural []*Obligation // contract-unbound, unsupported, vacuity
}

func cmdCheck(args []string) {
	fs := flag.NewFlagSet("check", flag.ExitOnError)
	prop := fs.String("p", "", "property id")
	tier := fs.String("tier", "quick", "quick | thorough")
	repo := fs.String("repo", "/repo", "repository root")
	verbose := fs.Bool("v", false, "verbose")
	fs.Parse(args)
	if t := os.Getenv("VERIF_TIER"); t != "" && *tier == "" {
		*tier = t
	}
	props := loadProps()
	cfg, ok := props[*prop]
	if !ok {
		fmt.Fprintln(os.Stderr, "unknown property", *prop)
		os.Exit(2)
	}
	seed := 0
	if s := os.Getenv("VERIF_SEED"); s != "" {
		seed, _ = strconv.Atoi(s)
	}
	t0 := time.Now()
	timeout := 90000
	if *tier == "thorough" {
		timeout = 240000
	}
	p, err := loadProgram(*repo)
	if err != nil {
		// a tree that does not load cannot be certified
		fmt.Println("cannot load repository:", err)
		writeReplay(*prop, "load#error", map[string]any{"error": err.Error()})
		fmt.Printf("VIOLATION property=%s replay=%s no-failing-input-found\n", *prop, replayPath(*prop, "load#error"))
		os.Exit(1)
	}
	res := runProperty(p, *prop, cfg, timeout)
	violations := report(p, *prop, cfg, res, *tier, seed, time.Since(t0).Seconds(), *verbose)
	if violations > 0 {
		os.Exit(1)
	}
}

func resolveFuncs(p *Program, names []string) ([]*ssa.Function, []string) {
	var fns []*ssa.Function
	var missing []string
	for _, n := range names {
		key := modulePath + "/" + n
		if fn, ok := p.funcs[key]; ok {
			fns = append(fns, fn)
		} else {
			missing = append(missing, n)
		}
	}
	return fns, missing
}

func runProperty(p *Program, id string, cfg *PropCfg, timeout int) *checkResult {
	res := &checkResult{}
	fns, missing := resolveFuncs(p, cfg.Funcs)
	for _, m := range missing {
		res.structural = append(res.structural, &Obligation{Name: m + "#contract-unbound", Kind: "contract-unbound", Status: "failed",
			Note: "function listed under this property no longer exists (renamed or deleted)"})
	}
	allFindings = loadFindings()
	var lemmas []*Contract
	for _, l := range cfg.Lemmas {
		if c, ok := p.contracts.byKey[modulePath+"/"+l]; ok && c.Lemma {
			lemmas = append(lemmas, c)
		} else {
			res.structural = append(res.structural, &Obligation{Name: l + "#contract-unbound", Kind: "contract-unbound", Status: "failed", Note: "lemma listed under this property is missing from the contract files"})
		}
	}
	quickOnly := map[string]bool{}
	for k := range loadUndecided() {
		if strings.HasPrefix(k, id+"|") {
			quickOnly[strings.TrimPrefix(k, id+"|")] = true
		}
	}
	res.jobs = p.runJobsL(fns, lemmas, SolverCfg{TimeoutMs: timeout, Dir: filepath.Join(verifRoot(), "replays", id), Keep: false, Quick: quickOnly})
	for _, j := range res.jobs {
		if j.Err != "" {
			res.structural = append(res.structural, &Obligation{Name: j.Name + "#unsupported", Kind: "unsupported", Status: "failed", Note: j.Err, Job: j.Name})
		}
		groups := map[string][2]int{}
		for _, o := range j.Obls {
			if o.Kind == "pre-sat" && o.Group != "" {
				g := groups[o.Group]
				g[0]++
				if o.Status == "proved" {
					g[1]++
				}
				groups[o.Group] = g
				continue
			}
			if o.Kind == "pre-sat" && o.Status == "proved" {
				res.structural = append(res.structural, &Obligation{Name: j.Name + "#vacuous-precondition", Kind: "vacuity", Status: "failed",
					Note: "the function's precondition (with type invariants) is unsatisfiable or undecided: " + o.Status, Job: j.Name})
			}
		}
		for g, n := range groups {
			if n[0] > 0 && n[0] == n[1] {
				res.structural = append(res.structural, &Obligation{Name: j.Name + "#vacuous(" + g + ")", Kind: "vacuity", Status: "failed",
					Note: "the assumptions are contradictory on every path that reaches this point (" + g + "): obligations there hold vacuously", Job: j.Name})
			}
		}
		// every clause of the contract must have produced something
		if j.contract != nil && j.Err == "" {
			for _, cl := range j.contract.Clauses {
				if !cl.Used && cl.Kind != "let" {
					res.structural = append(res.structural, &Obligation{Name: fmt.Sprintf("%s#clause-unused:%d", j.Name, cl.Line), Kind: "contract-unbound", Status: "failed",
						Note: "contract clause generated no obligation (loop ordinal out of range?): " + cl.Src, Job: j.Name})
				}
			}
		}
	}
	// regex obligations
	for _, r := range cfg.Regex {
		o := &RegexObl{Name: r.Name, Spec: r.Spec, Anchored: r.Anchored, Domain: r.Domain}
		code, ok := p.findPattern(r.Name)
		if !ok {
			o.Status = "failed"
			o.Note = "pattern variable not found in the source (renamed or no longer a literal)"
		} else {
			o.Code = code
			checkRegexEq(o, timeout)
		}
		res.regex = append(res.regex, o)
	}
	return res
}

// findPattern returns the regexp literal bound to a package-level variable "pkg/path.var",
// or the k-th regexp.MustCompile literal inside a function "pkg/path.Func#k".
func (p *Program) findPattern(name string) (string, bool) {
	if i := strings.Index(name, "#"); i >= 0 {
		fn, ok := p.funcs[modulePath+"/"+name[:i]]
		if !ok {
			return "", false
		}
		k, _ := strconv.Atoi(name[i+1:])
		n := 0
		for _, b := range fn.Blocks {
			for _, ins := range b.Instrs {
				if c, ok := ins.(*ssa.Call); ok {
					if f, ok := c.Call.Value.(*ssa.Function); ok && funcKey(f) == "regexp.MustCompile" {
						n++
						if n == k {
							if cst, ok := c.Call.Args[0].(*ssa.Const); ok {
								return strings.Trim(constantString(cst), ""), true
							}
						}
					}
				}
			}
		}
		return "", false
	}
	key := modulePath + "/" + name
	init, ok := p.globInit[key]
	if !ok {
		return "", false
	}
	tmp := &Exec{prog: p}
	_ = tmp
	if pat, ok := patternOfInit(init); ok {
		return pat, true
	}
	return "", false
}

type evidence struct {
	PropertyID  string         `json:"property_id"`
	Tier        string         `json:"tier"`
	Seed        int            `json:"seed"`
	Level       string         `json:"level"`
	Coverage    map[string]any `json:"coverage"`
	Assumptions []string       `json:"assumptions"`
	WallS       float64        `json:"wall_s"`
	Violations  int            `json:"violations"`
}

func replayPath(prop, obl string) string {
	return filepath.Join(verifRoot(), "replays", prop, sanitizeFile(obl)+".json")
}

func writeReplay(prop, obl string, content map[string]any) string {
	path := replayPath(prop, obl)
	os.MkdirAll(filepath.Dir(path), 0o755)
	data, _ := json.MarshalIndent(content, "", " ")
	os.WriteFile(path, data, 0o644)
	return path
}

func report(p *Program, id string, cfg *PropCfg, res *checkResult, tier string, seed int, wall float64, verbose bool) int {
	findings := loadFindings()
	open := map[string]*Finding{}
	for _, f := range findings {
		if f.Property == id && f.Status == "open" {
			open[f.Obligation] = f
		}
	}
	undec := loadUndecided()
	var undecidedNow []string
	var skippedObls []*Obligation
	total, discharged := 0, 0
	bySolver := map[string]int{}
	solverSecs := 0.0
	var samples []any
	var funcs []string
	unmod := map[string]bool{}
	trusted := map[string]bool{}
	var failed []*Obligation
	known := 0
	seenKnown := map[string]bool{}
	for _, j := range res.jobs {
		funcs = append(funcs, j.Name)
		for _, u := range j.Unmodelled {
			unmod[u] = true
		}
		for _, t := range j.Trusted {
			trusted[t] = true
		}
		for _, o := range j.Obls {
			if o.Kind == "pre-sat" {
				continue
			}
			solverSecs += o.Secs
			if o.Kind == "known-excl" {
				continue
			}
			if f, ok := open[o.Name]; ok && o.Status != "proved" {
				// a listed finding explains the failure only if nothing fails outside its witness class
				if ex := j.exclOf(o); ex != nil && ex.Status != "proved" {
					o.Note += " [fails also outside the known witness class: " + f.Class + "]"
					if ex.Model != nil {
						o.Model, o.Output = ex.Model, ex.Output
					}
				} else {
					known++
					if !seenKnown[o.Name] {
						seenKnown[o.Name] = true
						fmt.Printf("KNOWN-FINDING: property=%s %s: %s\n", id, o.Name, f.What)
					}
					continue
				}
			}
			if u, ok := undec[id+"|"+o.Name]; ok && o.Status != "proved" {
				undecidedNow = append(undecidedNow, o.Name+": "+u.Reason)
				fmt.Printf("UNDECIDED: property=%s %s (not counted as discharged, not a violation): %s\n", id, o.Name, truncate(u.Reason, 160))
				continue
			}
			if o.Status == "skipped" {
				// tried with a reduced budget only, after other obligations of this run had already ended undischarged
				fmt.Printf("SKIPPED: property=%s %s (reduced budget after earlier violations in this run; neither counted nor reported as a violation)\n", id, o.Name)
				skippedObls = append(skippedObls, o)
				continue
			}
			total++
			if o.Status == "proved" {
				discharged++
				bySolver[o.Solver]++
				if len(samples) < 6 && o.Solver != "trivial" {
					samples = append(samples, map[string]any{"obligation": o.Name, "kind": o.Kind, "clause": o.Note, "goal": o.Goal.StringN(400), "solver": o.Solver})
				}
			} else {
				failed = append(failed, o)
			}
		}
	}
	for _, r := range res.regex {
		total++
		solverSecs += r.Secs
		name := "regex-language(" + r.Name + ")"
		if f, ok := open[name]; ok && r.Status != "proved" {
			total--
			known++
			fmt.Printf("KNOWN-FINDING: property=%s %s: %s\n", id, name, f.What)
			continue
		}
		if r.Status == "proved" {
			discharged++
			bySolver[r.Solver]++
			samples = append(samples, map[string]any{"obligation": name, "kind": "regex-language", "source_pattern": r.Code, "spec_pattern": r.Spec, "solver": r.Solver})
		} else {
			failed = append(failed, &Obligation{Name: name, Kind: "regex-language", Status: r.Status, Note: r.Note, Output: "witness: " + strconv.Quote(r.Witness),
				Model: map[string]string{"witness": r.Witness}})
		}
	}
	for _, o := range res.structural {
		total++
		failed = append(failed, o)
	}
	if len(failed) == 0 && len(skippedObls) > 0 {
		// no violation stands, yet some obligations only had the reduced budget: they are undischarged obligations of this
		// run like any other (this cannot happen unless the obligations that triggered the reduction were discharged or
		// excused afterwards; it is a safety net, not a path the unchanged tree takes)
		for _, o := range skippedObls {
			total++
			o.Status = "unknown"
			failed = append(failed, o)
		}
	}
	if total == 0 {
		// a check that generates nothing proves nothing
		total++
		failed = append(failed, &Obligation{Name: id + "#no-obligations", Kind: "vacuity", Status: "failed", Note: "the check generated no obligation at all"})
	}
	violations := 0
	for _, o := range failed {
		violations++
		content := map[string]any{"property": id, "obligation": o.Name, "kind": o.Kind, "clause": o.Note, "position": o.Pos, "status": o.Status,
			"solver": o.Solver, "solver_output": o.Output, "model": o.Model}
		if o.Goal != nil {
			content["goal"] = o.Goal.StringN(4000)
		}
		suffix := ""
		replayed := false
		if o.Kind == "regex-language" && strings.Contains(o.Note, "matches=") && !strings.Contains(o.Note, "did not reproduce") {
			replayed = true
		}
		if o.Job != "" && o.Model != nil && o.Kind != "regex-language" {
			if rp := tryReplay(p, res, o); rp != nil {
				content["replay"] = rp
				replayed = rp.Reproduced
			}
		}
		content["replayed_on_real_code"] = replayed
		if !replayed {
			suffix = " no-failing-input-found"
		}
		path := writeReplay(id, o.Name, content)
		fmt.Printf("FAILED %s [%s] %s %s\n", o.Name, o.Status, o.Pos, truncate(o.Note, 200))
		if verbose && o.Output != "" {
			fmt.Println("   ", truncate(o.Output, 800))
		}
		fmt.Printf("VIOLATION property=%s replay=%s%s\n", id, path, suffix)
	}
	sort.Strings(funcs)
	level := cfg.Level
	if level == "" {
		level = "proof"
	}
	cov := map[string]any{
		"obligations":              total,
		"discharged":               discharged,
		"checker_cmd":              fmt.Sprintf("bin/govc check -p %s -tier %s  (VCs from go/ssa of /repo's working tree; solvers: z3-new 5.1.0 incremental, then z3 4.8.12 / cvc5 1.0 portfolio)", id, tier),
		"trusted_base":             sortedKeys(trusted),
		"functions_under_contract": funcs,
		"discharged_by_backend":    bySolver,
		"solver_seconds":           solverSecs,
		"unmodelled_calls":         sortedKeys(unmod),
		"known_findings_matched":   known,
		"undecided_not_counted":    undecidedNow,
		"samples":                  samples,
		"scope":                    cfg.Scope,
		"integers":                 "mathematical (unbounded); machine ranges assumed on inputs, overflow is an explicit obligation where safemath is used (A-INT)",
	}
	if level != "proof" {
		cov["explanation"] = cfg.Scope
	}
	if len(samples) == 0 {
		cov["samples"] = []any{map[string]any{"note": "no non-trivial obligation discharged in this run"}}
	}
	assumptions := append([]string{}, cfg.Assumptions...)
	for _, t := range sortedKeys(trusted) {
		if txt, ok := assumptionText[t]; ok {
			assumptions = append(assumptions, txt)
		} else {
			// TRUSTED-CONTRACT <function>, DEFINITION by <function>: <clause>
			assumptions = append(assumptions, t)
		}
	}
	ev := evidence{PropertyID: id, Tier: tier, Seed: seed, Level: level, Coverage: cov, Assumptions: assumptions, WallS: wall, Violations: violations}
	os.MkdirAll(filepath.Join(verifRoot(), "evidence"), 0o755)
	data, _ := json.MarshalIndent(ev, "", " ")
	os.WriteFile(filepath.Join(verifRoot(), "evidence", id+".json"), data, 0o644)
	fmt.Printf("%s: %d obligations, %d discharged, %d violations, %d known findings (%.1fs)\n", id, total, discharged, violations, known, wall)
	return violations
}

var assumptionText = map[string]string{
	"A-INT":     "A-INT: Go integers are modelled as mathematical integers; lengths and counters are assumed not to overflow",
	"A-APPEND":  "A-APPEND: append always allocates a fresh backing array (no aliasing through spare capacity)",
	"A-UTF8":    "A-UTF8: UTF-8 decoding facts for range-over-string, string(rune), []rune(s), utf8.DecodeLastRuneInString as stated in DESIGN.md",
	"A-CAL":     "A-CAL: civil.Date/time.Time follow the proleptic Gregorian calendar model (day number arithmetic)",
	"A-CODEC":   "A-CODEC: regexp capture groups, strconv.Atoi/Itoa and fmt.Sprintf behave per their abstract contracts (language part proved separately)",
	"A-STR":     "A-STR: package strings functions follow their sequence specifications",
	"A-LIB":     "A-LIB: errors.New returns non-nil; safemath.Add/Multiply report an error exactly on overflow",
	"A-FLOAT":   "A-FLOAT: math.Ceil on real-valued quotients (floats treated as reals)",
	"A-CLOSED":  "A-CLOSED: interface values hold only dynamic types that the module itself converts to interfaces (closed world)",
	"A-PUREFN":  "A-PUREFN: function-typed parameters are pure functions of their arguments",
	"A-GLOBALS": "A-GLOBALS: package-level variables are not reassigned after initialisation",
	"A-KEYS":    "A-KEYS: map keys that contain strings are compared by content through canonical representatives (str.canon) whose defining axioms are instantiated pairwise for the keys a function uses",
	"A-FS":      "A-FS: the file system is ghost state (number of writes, path and data of the last write) that only os.WriteFile changes; os.WriteFile may fail; other os functions return unknown results and are assumed not to change file contents",
	"A-RECV":    "A-RECV: pointer receivers of methods are non-nil",
	"A-INV":     "A-INV: declared type invariants are checked where a value is created, stored, boxed, passed or returned by a function under contract, and assumed where it is read; invariants that read through a slice field (block.lines) additionally assume that nobody writes the slice's elements after construction (ownership is not tracked)",
}

func cmdList(args []string) {
	props := loadProps()
	var ids []string
	for id := range props {
		ids = append(ids, id)
	}
	sort.Strings(ids)
	for _, id := range ids {
		fmt.Printf("%s: %d functions, %d regex obligations\n", id, len(props[id].Funcs), len(props[id].Regex))
	}
}
