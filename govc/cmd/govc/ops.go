package main

// String, rune, map and iterator operations.

import (
	"fmt"
	"go/token"
	"go/types"
	"unicode/utf8"

	"golang.org/x/tools/go/ssa"
)

// ---------- strings ----------

func (x *Exec) strConcat(st *State, a, b *Term) *Term {
	r := x.strConcat0(st, a, b)
	// remember the pieces (used by handlers that parse constructed strings, e.g. civil.ParseDate)
	parts := func(t *Term) []*Term {
		if p, ok := x.job.concatParts[t.id]; ok {
			return p
		}
		return []*Term{t}
	}
	if _, isLit := literalOf(r); !isLit {
		x.job.concatParts[r.id] = append(append([]*Term{}, parts(a)...), parts(b)...)
	}
	return r
}

func (x *Exec) strConcat0(st *State, a, b *Term) *Term {
	la, oka := literalOf(a)
	lb, okb := literalOf(b)
	if oka && okb {
		return StrLit(la + lb)
	}
	if oka && la == "" {
		return b
	}
	if okb {
		// append literal bytes behind a (positions beyond a's end are not part of a)
		arr := strArr(a)
		base := Add(strOff(a), strLen(a))
		for i := 0; i < len(lb); i++ {
			arr = Store(arr, Add(base, IntLit(int64(i))), IntLit(int64(lb[i])))
		}
		return mkStr(arr, strOff(a), Add(strLen(a), IntLit(int64(len(lb)))))
	}
	// general case: fresh string with pointwise definition
	// (a function of the operands, so that the same concatenation written twice - in the code and in a contract -
	// denotes the same string)
	r := UF("gs.catarr", arraySort(SInt, SInt), a, b)
	lenA, lenB := strLen(a), strLen(b)
	j := BoundVar("j", SInt)
	x.ctx.assumeGlobal(st, Forall([]*Term{j}, And(
		Implies(And(Le(IntLit(0), j), Lt(j, lenA)), Eq(Select(r, j), strAt(a, j))),
		Implies(And(Le(lenA, j), Lt(j, Add(lenA, lenB))), Eq(Select(r, j), strAt(b, Sub(j, lenA))))),
		[]*Term{Select(r, j)}))
	return mkStr(r, IntLit(0), Add(lenA, lenB))
}

// strEqual: Go's == on strings.
func (x *Exec) strEqual(st *State, a, b *Term) *Term {
	la, oka := literalOf(a)
	lb, okb := literalOf(b)
	if oka && okb {
		return BoolLit(la == lb)
	}
	e := strEq(a, b)
	if e.op == "gs.eq" {
		key := [2]int{e.id, -1}
		if !x.typed[key] {
			x.typed[key] = true
			j := BoundVar("j", SInt)
			x.ctx.assumeGlobal(st, Implies(e, And(Eq(strLen(a), strLen(b)),
				Forall([]*Term{j}, Implies(And(Le(IntLit(0), j), Lt(j, strLen(a))), Eq(strAt(a, j), strAt(b, j))), []*Term{strAt(a, j)}, []*Term{strAt(b, j)}))))
			k := Fresh("diff", SInt)
			x.ctx.assumeGlobal(st, Implies(Not(e), Or(Neq(strLen(a), strLen(b)),
				And(Le(IntLit(0), k), Lt(k, strLen(a)), Neq(strAt(a, k), strAt(b, k))))))
		}
	}
	return e
}

func runeLenTerm(c *Term) *Term {
	return Ite(Lt(c, IntLit(0)), IntLit(3),
		Ite(Lt(c, IntLit(0x80)), IntLit(1),
			Ite(Lt(c, IntLit(0x800)), IntLit(2),
				Ite(And(Le(IntLit(0xD800), c), Le(c, IntLit(0xDFFF))), IntLit(3),
					Ite(Lt(c, IntLit(0x10000)), IntLit(3),
						Ite(Le(c, IntLit(0x10FFFF)), IntLit(4), IntLit(3)))))))
}

// runeToString: string(rune) — the UTF-8 encoding (U+FFFD for invalid runes).
func (x *Exec) runeToString(st *State, c *Term) *Term {
	if v, ok := c.intVal(); ok {
		return StrLit(string(rune(v)))
	}
	x.trusted["A-UTF8"] = true
	arr := UF("rune.enc", arraySort(SInt, SInt), c)
	x.ctx.assumeGlobal(st, Implies(And(Le(IntLit(0), c), Lt(c, IntLit(0x80))), Eq(Select(arr, IntLit(0)), c)))
	return mkStr(arr, IntLit(0), runeLenTerm(c))
}

// stringToRunes: []rune(s)
func (x *Exec) stringToRunes(st *State, s *Term, rt types.Type) *Val {
	elemT := rt.Underlying().(*types.Slice).Elem()
	asort := arraySort(SInt, SInt)
	ref := x.allocRef(st)
	name := arrMapName(elemT)
	if lit, ok := literalOf(s); ok {
		arr := ConstArr(asort, IntLit(0))
		n := 0
		for _, r := range lit {
			arr = Store(arr, IntLit(int64(n)), IntLit(int64(r)))
			n++
		}
		x.ctx.hwrite(st, name, asort, ref, arr)
		return &Val{T: mkSlice(ref, IntLit(0), IntLit(int64(n))), Typ: rt}
	}
	x.trusted["A-UTF8"] = true
	arr := UF("gs.runes", asort, s)
	cnt := UF("gs.runecount", SInt, s)
	x.ctx.assumeGlobal(st, And(Ge(cnt, IntLit(0)), Le(cnt, strLen(s)), Implies(Gt(strLen(s), IntLit(0)), Gt(cnt, IntLit(0))),
		Le(strLen(s), Mul(IntLit(4), cnt))))
	x.ctx.hwrite(st, name, asort, ref, arr)
	return &Val{T: mkSlice(ref, IntLit(0), cnt), Typ: rt}
}

func (x *Exec) stringToBytes(st *State, s *Term, rt types.Type) *Val {
	elemT := rt.Underlying().(*types.Slice).Elem()
	asort := arraySort(SInt, SInt)
	ref := x.allocRef(st)
	x.ctx.hwrite(st, arrMapName(elemT), asort, ref, strArr(s))
	return &Val{T: mkSlice(ref, strOff(s), strLen(s)), Typ: rt}
}

func (x *Exec) bytesToString(st *State, v *Val, rt types.Type) *Val {
	elemT := v.Typ.Underlying().(*types.Slice).Elem()
	arr := x.elemArr(st, elemT, slRef(v.T))
	return &Val{T: mkStr(arr, slOff(v.T), slLen(v.T)), Typ: rt}
}

// runesToString: string([]rune)
func (x *Exec) runesToString(st *State, v *Val, rt types.Type) *Val {
	x.trusted["A-UTF8"] = true
	elemT := v.Typ.Underlying().(*types.Slice).Elem()
	arr := x.elemArr(st, elemT, slRef(v.T))
	n := slLen(v.T)
	s := UF("runes.str", SStr, arr, slOff(v.T), n)
	x.ctx.assumeGlobal(st, And(Ge(strLen(s), n), Le(strLen(s), Mul(IntLit(4), n)), Ge(strOff(s), IntLit(0))))
	return &Val{T: s, Typ: rt}
}

// ---------- range / next ----------

func (x *Exec) rangeOp(fr *Frame, st *State, in *ssa.Range) *Val {
	v := x.get(fr, in.X)
	cell := iterCellName(in)
	ref := x.allocRef(st)
	it := &Iter{cell: cell, ref: ref, id: in.Name()}
	switch v.Typ.Underlying().(type) {
	case *types.Basic:
		it.str = v.T
		it.strTyp = v.Typ
		x.ctx.hwrite(st, cell, SInt, ref, IntLit(0))
	case *types.Map:
		it.isMap = true
		it.mapVal = v
		x.ctx.hwrite(st, cell, SInt, ref, IntLit(0))
		x.initMapIter(st, it)
	default:
		unsupportedf("range over %s", v.Typ)
	}
	return &Val{Typ: in.Type(), Iter: it}
}

func (x *Exec) nextOp(fr *Frame, st *State, in *ssa.Next) *Val {
	itv := x.get(fr, in.Iter)
	it := itv.Iter
	if it == nil {
		unsupportedf("next on unknown iterator")
	}
	tup := in.Type().(*types.Tuple)
	if it.isMap {
		return x.nextMap(st, it, tup)
	}
	x.trusted["A-UTF8"] = true
	pos := x.ctx.hread(st, it.cell, SInt, it.ref)
	s := it.str
	ln := strLen(s)
	ok := Lt(pos, ln)
	w, c := utf8At(s, pos)
	b0 := strAt(s, pos)
	last := UF("utf8.lastsize", SInt, s)
	x.ctx.assume(st, Implies(ok, And(
		Le(IntLit(1), w), Le(w, IntLit(4)), Le(Add(pos, w), ln),
		Le(IntLit(0), b0), Le(b0, IntLit(255)),
		Le(IntLit(0), c), Le(c, IntLit(0x10FFFF)),
		Implies(Lt(b0, IntLit(0x80)), And(Eq(w, IntLit(1)), Eq(c, b0))),
		Implies(Ge(b0, IntLit(0x80)), Ge(c, IntLit(0x80))),
		Implies(And(Ge(b0, IntLit(0x80)), Eq(w, IntLit(1))), Eq(c, IntLit(0xFFFD))),
		Implies(Not(And(Eq(c, IntLit(0xFFFD)), Eq(w, IntLit(1)))), Eq(runeLenTerm(c), w)),
		Not(And(Le(IntLit(0xD800), c), Le(c, IntLit(0xDFFF)))),
		// the bytes after the first one of a multi-byte rune are continuation bytes
		Implies(Gt(w, IntLit(1)), Ge(strAt(s, Add(pos, IntLit(1))), IntLit(0x80))),
		Implies(Gt(w, IntLit(2)), Ge(strAt(s, Add(pos, IntLit(2))), IntLit(0x80))),
		Implies(Gt(w, IntLit(3)), Ge(strAt(s, Add(pos, IntLit(3))), IntLit(0x80))),
		// the forward decoding reaches the end exactly at the start of the last rune
		Eq(Eq(Add(pos, w), ln), Eq(pos, Sub(ln, last))),
		And(Le(IntLit(1), last), Le(last, IntLit(4)), Le(last, ln)),
	)))
	x.ctx.assume(st, And(Le(IntLit(0), pos), Le(pos, ln)))
	x.ctx.hwrite(st, it.cell, SInt, it.ref, Ite(ok, Add(pos, w), pos))
	return &Val{Typ: tup, Tuple: []*Val{
		{T: ok, Typ: types.Typ[types.Bool]},
		{T: pos, Typ: types.Typ[types.Int]},
		{T: c, Typ: types.Typ[types.Rune]},
	}}
}

// ---------- maps ----------

func mapKeyName(mt *types.Map) string {
	return sanitize(TE.SortOf(mt.Key()).Name) + "->" + sanitize(TE.SortOf(mt.Elem()).Name)
}
func mapDomName(mt *types.Map) string  { return "mapdom:" + mapKeyName(mt) }
func mapValName(mt *types.Map) string {
	n := "mapval:" + mapKeyName(mt)
	if _, ok := heapValType[n]; !ok {
		heapValType[n] = mt.Elem()
	}
	return n
}
func mapSizeName(mt *types.Map) string { return "mapsize:" + mapKeyName(mt) }

func (x *Exec) mapSorts(mt *types.Map) (ks, vs, doms, vals *Sort) {
	ks = TE.SortOf(mt.Key())
	vs = TE.SortOf(mt.Elem())
	return ks, vs, arraySort(ks, SBool), arraySort(ks, vs)
}

// Map keys that contain strings: Go compares keys by content, the string encoding (array, offset, length) does not.
// Every string that becomes (part of) a map key is therefore replaced by a canonical representative canon(s) with
//   s == canon(s)  (content),   canon(s) = canon(s')  <=>  s == s'  (content)
// for all strings s, s' canonised in the same function (pairwise axioms; literals and keys produced by map iteration
// are their own representatives).
type canonStr struct{ orig, canon *Term }

func typeHasString(t types.Type) bool {
	switch u := t.Underlying().(type) {
	case *types.Basic:
		return u.Info()&types.IsString != 0
	case *types.Struct:
		for i := 0; i < u.NumFields(); i++ {
			if typeHasString(u.Field(i).Type()) {
				return true
			}
		}
	case *types.Array:
		return typeHasString(u.Elem())
	}
	return false
}

func (x *Exec) canonString(st *State, s *Term, self bool) *Term {
	if hasFreeBound(s) {
		// under a quantifier: the axioms are added when an instance makes the term ground (registerCanonsIn)
		return UF("str.canon", SStr, s)
	}
	for _, c := range x.canonStrs {
		if c.orig == s || c.canon == s {
			return c.canon
		}
	}
	c := s
	if _, isLit := literalOf(s); !isLit && !self {
		c = UF("str.canon", SStr, s)
		x.ctx.assumeGlobal(st, x.strEqual(st, c, s))
		x.ctx.assumeGlobal(st, Ge(strLen(c), IntLit(0)))
	}
	for _, o := range x.canonStrs {
		x.ctx.assumeGlobal(st, Eq(Eq(c, o.canon), x.strEqual(st, s, o.orig)))
	}
	x.canonStrs = append(x.canonStrs, canonStr{orig: s, canon: c})
	return c
}

// registerCanonsIn: ground applications of str.canon that appear in an instance of a quantified fact get their axioms.
func (x *Exec) registerCanonsIn(st *State, t *Term) {
	seen := map[int]bool{}
	var walk func(t *Term)
	walk = func(t *Term) {
		if seen[t.id] || t.op == "forall" || t.op == "exists" {
			return
		}
		seen[t.id] = true
		for _, a := range t.args {
			walk(a)
		}
		if t.op == "str.canon" && len(t.args) == 1 && !hasFreeBound(t) {
			if c := x.canonString(st, t.args[0], false); c != t {
				x.ctx.assumeGlobal(st, Eq(t, c)) // a literal (or iteration key) is its own representative
			}
		}
	}
	walk(t)
}

// mapKey returns the key term under which k is stored in / looked up from the SMT arrays of a map.
func (x *Exec) mapKey(st *State, k *Term, kt types.Type) *Term {
	if !typeHasString(kt) {
		return k
	}
	x.trusted["A-KEYS"] = true
	switch u := kt.Underlying().(type) {
	case *types.Basic:
		return x.canonString(st, k, false)
	case *types.Struct:
		var fs []*Term
		for i := 0; i < u.NumFields(); i++ {
			fs = append(fs, x.mapKey(st, TE.Field(kt, i, k), u.Field(i).Type()))
		}
		return TE.MkStruct(kt, fs)
	}
	unsupportedf("map key of type %s", kt)
	return nil
}

// registerIterKey: a key produced by map iteration is an element of the domain, hence canonical already.
func (x *Exec) registerIterKey(st *State, k *Term, kt types.Type) {
	if !typeHasString(kt) {
		return
	}
	switch u := kt.Underlying().(type) {
	case *types.Basic:
		x.canonString(st, k, true)
	case *types.Struct:
		for i := 0; i < u.NumFields(); i++ {
			x.registerIterKey(st, TE.Field(kt, i, k), u.Field(i).Type())
		}
	}
}

func (x *Exec) mapDelete(st *State, m, k *Val, pos token.Pos) {
	mt := m.Typ.Underlying().(*types.Map)
	_, _, doms, _ := x.mapSorts(mt)
	kk := x.mapKey(st, k.T, mt.Key())
	dom := x.ctx.hread(st, mapDomName(mt), doms, m.T)
	size := x.ctx.hread(st, mapSizeName(mt), SInt, m.T)
	present := And(Neq(m.T, IntLit(0)), Select(dom, kk))
	x.noteWrite(st, mapDomName(mt), m.T)
	// delete on a nil map is a no-op; the heap cell of reference 0 is never read as a map
	x.ctx.hwrite(st, mapSizeName(mt), SInt, m.T, Ite(present, Sub(size, IntLit(1)), size))
	x.ctx.hwrite(st, mapDomName(mt), doms, m.T, Store(dom, kk, False))
}

func (x *Exec) makeMap(fr *Frame, st *State, in *ssa.MakeMap) *Val {
	mt := in.Type().Underlying().(*types.Map)
	_, _, doms, vals := x.mapSorts(mt)
	ref := x.allocRef(st)
	x.ctx.hwrite(st, mapDomName(mt), doms, ref, ConstArr(doms, False))
	x.ctx.hwrite(st, mapValName(mt), vals, ref, ConstArr(vals, TE.zeroValue(mt.Elem())))
	x.ctx.hwrite(st, mapSizeName(mt), SInt, ref, IntLit(0))
	return &Val{T: ref, Typ: in.Type()}
}

func (x *Exec) mapUpdate(fr *Frame, st *State, in *ssa.MapUpdate) {
	m := x.get(fr, in.Map)
	k := x.get(fr, in.Key)
	v := x.get(fr, in.Value)
	mt := m.Typ.Underlying().(*types.Map)
	_, _, doms, vals := x.mapSorts(mt)
	x.oblige(st, "nilmap", Neq(m.T, IntLit(0)), in.Pos(), "assignment to entry in nil map")
	dom := x.ctx.hread(st, mapDomName(mt), doms, m.T)
	val := x.ctx.hread(st, mapValName(mt), vals, m.T)
	size := x.ctx.hread(st, mapSizeName(mt), SInt, m.T)
	kk := x.mapKey(st, k.T, mt.Key())
	x.noteWrite(st, mapDomName(mt), m.T)
	x.ctx.assume(st, And(Ge(size, IntLit(0)), Implies(Select(dom, kk), Ge(size, IntLit(1)))))
	x.ctx.hwrite(st, mapSizeName(mt), SInt, m.T, Ite(Select(dom, kk), size, Add(size, IntLit(1))))
	x.ctx.hwrite(st, mapDomName(mt), doms, m.T, Store(dom, kk, True))
	x.ctx.hwrite(st, mapValName(mt), vals, m.T, Store(val, kk, v.T))
}

func (x *Exec) lookup(fr *Frame, st *State, in *ssa.Lookup) *Val {
	m := x.get(fr, in.X)
	k := x.get(fr, in.Index)
	mt, isMap := m.Typ.Underlying().(*types.Map)
	if !isMap {
		// string index
		idx := k.T
		x.oblige(st, "index", And(Ge(idx, IntLit(0)), Lt(idx, strLen(m.T))), in.Pos(), "string index in range")
		v := strAt(m.T, idx)
		x.ctx.assume(st, And(Ge(v, IntLit(0)), Le(v, IntLit(255))))
		return &Val{T: v, Typ: in.Type()}
	}
	_, _, doms, vals := x.mapSorts(mt)
	dom := x.ctx.hread(st, mapDomName(mt), doms, m.T)
	val := x.ctx.hread(st, mapValName(mt), vals, m.T)
	kk := x.mapKey(st, k.T, mt.Key())
	present := And(Neq(m.T, IntLit(0)), Select(dom, kk))
	// a map with a key has at least one entry
	x.ctx.assume(st, Implies(present, Ge(x.ctx.hread(st, mapSizeName(mt), SInt, m.T), IntLit(1))))
	res := Ite(present, Select(val, kk), TE.zeroValue(mt.Elem()))
	x.assumeType(st, res, mt.Elem())
	rv := &Val{T: res, Typ: mt.Elem()}
	if in.CommaOk {
		return &Val{Typ: in.Type(), Tuple: []*Val{rv, {T: present, Typ: types.Typ[types.Bool]}}}
	}
	return rv
}

func (x *Exec) mapLen(st *State, m *Val) *Term {
	mt := m.Typ.Underlying().(*types.Map)
	size := x.ctx.hread(st, mapSizeName(mt), SInt, m.T)
	x.ctx.assume(st, Ge(size, IntLit(0)))
	return Ite(Eq(m.T, IntLit(0)), IntLit(0), size)
}

// Map iteration: an arbitrary duplicate-free enumeration of the domain. The iterator keeps the set of visited keys.
func (x *Exec) initMapIter(st *State, it *Iter) {
	mt := it.mapVal.Typ.Underlying().(*types.Map)
	_, _, doms, _ := x.mapSorts(mt)
	x.ctx.hwrite(st, it.cell+".visited", doms, it.ref, ConstArr(doms, False))
}

func (x *Exec) nextMap(st *State, it *Iter, tup *types.Tuple) *Val {
	mt := it.mapVal.Typ.Underlying().(*types.Map)
	ks, _, doms, vals := x.mapSorts(mt)
	m := it.mapVal.T
	dom := x.ctx.hread(st, mapDomName(mt), doms, m)
	val := x.ctx.hread(st, mapValName(mt), vals, m)
	visited := x.ctx.hread(st, it.cell+".visited", doms, it.ref)
	ok := Fresh("mapnext.ok", SBool)
	k := Fresh("mapnext.key", ks)
	x.ctx.assume(st, Implies(ok, And(Neq(m, IntLit(0)), Select(dom, k), Not(Select(visited, k)))))
	q := BoundVar("k", ks)
	x.ctx.assume(st, Implies(Not(ok), Or(Eq(m, IntLit(0)), Forall([]*Term{q}, Implies(Select(dom, q), Select(visited, q)), []*Term{Select(dom, q)}))))
	x.ctx.hwrite(st, it.cell+".visited", doms, it.ref, Ite(ok, Store(visited, k, True), visited))
	kv := &Val{T: k, Typ: mt.Key()}
	x.assumeType(st, k, mt.Key())
	x.registerIterKey(st, k, mt.Key())
	vv := &Val{T: Select(val, k), Typ: mt.Elem()}
	x.assumeType(st, vv.T, mt.Elem())
	return &Val{Typ: tup, Tuple: []*Val{{T: ok, Typ: types.Typ[types.Bool]}, kv, vv}}
}

// bitOr: a | b is a + b when the operands occupy disjoint bit ranges (a below 2^k, b a multiple of 2^k).
func (x *Exec) bitOr(st *State, a, b *Term) *Term {
	if v, ok := a.intVal(); ok && v == 0 {
		return b
	}
	if v, ok := b.intVal(); ok && v == 0 {
		return a
	}
	r := UF("bit.or", SInt, a, b)
	for _, pr := range [][2]*Term{{a, b}, {b, a}} {
		lo, hi := pr[0], pr[1]
		if k := pow2Factor(hi); k > 0 {
			p := IntLit(1 << uint(k))
			x.ctx.assumeGlobal(st, Implies(And(Le(IntLit(0), lo), Lt(lo, p), Le(IntLit(0), hi), Eq(EMod(hi, p), IntLit(0))), Eq(r, Add(lo, hi))))
		}
	}
	return r
}

// pow2Factor finds k such that t is syntactically y * 2^k (possibly reduced modulo a larger power of two).
func pow2Factor(t *Term) int {
	if t.op == "mod" && len(t.args) == 2 {
		return pow2Factor(t.args[0])
	}
	if t.op == "*" && len(t.args) == 2 {
		for _, a := range t.args {
			if v, ok := a.intVal(); ok && v > 1 && v&(v-1) == 0 {
				k := 0
				for v > 1 {
					v >>= 1
					k++
				}
				return k
			}
		}
	}
	return 0
}

func (x *Exec) shl(st *State, a, b *Term) *Term {
	if n, ok := b.intVal(); ok && n >= 0 && n < 62 {
		return Mul(a, IntLit(1<<uint(n)))
	}
	return UF("bit.shl", SInt, a, b)
}

var _ = fmt.Sprintf
var _ = utf8.RuneError

// utf8At: width and rune of the UTF-8 sequence starting at byte position pos of s. The functions depend
// only on the bytes from that position to the end of the string, so substrings agree with their parents.
func utf8At(s, pos *Term) (w, c *Term) {
	abs := Add(strOff(s), pos)
	rem := Sub(strLen(s), pos)
	return UF("utf8.width", SInt, strArr(s), abs, rem), UF("utf8.rune", SInt, strArr(s), abs, rem)
}
