package main

// Symbolic state: path condition, heap (per-field maps as a persistent DAG), allocation counter.

import (
	"fmt"
	"sort"
)

// HNode is a version of one heap map (an SMT array indexed by object reference).
type HNode struct {
	kind  int // hBase, hStore, hHavoc, hMerge
	sym   *Term
	prev  *HNode
	idx   *Term
	val   *Term
	bound *Term   // hHavoc: objects with ref < bound keep their value (nil: none do)
	excl  []*Term // hHavoc: refs (below bound) that may nevertheless have changed
	cond  *Term   // hMerge
	a, b  *HNode
	vsort *Sort
	id    int
	memo  map[int]*Term
	at    *Term // allocation counter when this version was created (values it introduces are below it)
	bmemo map[int]*Term
}

// heapSymInfo: for every array symbol that stands for (part of) a heap map version, the map it belongs to and
// the allocation counter below which all references stored in it lie (nil: the entry counter alloc0).
type heapSym struct {
	name string
	at   *Term
}

var heapSymInfo = map[int]heapSym{}

const (
	hBase = iota
	hStore
	hHavoc
	hMerge
)

var hnodeCount int

func newHNode(kind int, vsort *Sort) *HNode {
	hnodeCount++
	return &HNode{kind: kind, vsort: vsort, id: hnodeCount, memo: map[int]*Term{}, bmemo: map[int]*Term{}}
}

// read returns the value of the map at idx in this version; quantifier-free.
func (h *HNode) read(idx *Term) *Term {
	if t, ok := h.memo[idx.id]; ok {
		return t
	}
	var r *Term
	switch h.kind {
	case hBase:
		r = Select(h.sym, idx)
	case hStore:
		r = Ite(Eq(idx, h.idx), h.val, h.prev.read(idx))
	case hHavoc:
		nv := Select(h.sym, idx)
		if h.bound == nil {
			r = nv
		} else {
			keep := Lt(idx, h.bound)
			for _, e := range h.excl {
				keep = And(keep, Neq(idx, e))
			}
			r = Ite(keep, h.prev.read(idx), nv)
		}
	case hMerge:
		r = Ite(h.cond, h.a.read(idx), h.b.read(idx))
	}
	h.memo[idx.id] = r
	return r
}

// readBound returns an allocation bound B such that every reference contained in read(idx) is below B:
// the allocation counter of the program point that supplied the value.
func (h *HNode) readBound(idx *Term, alloc0 *Term) *Term {
	if t, ok := h.bmemo[idx.id]; ok {
		return t
	}
	var r *Term
	switch h.kind {
	case hBase:
		r = alloc0
	case hStore:
		r = Ite(Eq(idx, h.idx), h.at, h.prev.readBound(idx, alloc0))
	case hHavoc:
		if h.bound == nil {
			r = h.at
		} else {
			keep := Lt(idx, h.bound)
			for _, e := range h.excl {
				keep = And(keep, Neq(idx, e))
			}
			r = Ite(keep, h.prev.readBound(idx, alloc0), h.at)
		}
	case hMerge:
		r = Ite(h.cond, h.a.readBound(idx, alloc0), h.b.readBound(idx, alloc0))
	}
	h.bmemo[idx.id] = r
	return r
}

// reaches reports whether version `old` is an ancestor of (or equal to) h.
func (h *HNode) reaches(old *HNode) bool {
	seen := map[int]bool{}
	var f func(n *HNode) bool
	f = func(n *HNode) bool {
		if n == nil {
			return false
		}
		if n == old {
			return true
		}
		if seen[n.id] {
			return false
		}
		seen[n.id] = true
		switch n.kind {
		case hStore, hHavoc:
			return f(n.prev)
		case hMerge:
			return f(n.a) || f(n.b)
		}
		return false
	}
	return f(h)
}

// Fact is an assumption valid under a path condition.
type Fact struct {
	t *Term
}

// State is a symbolic program state. It is treated as immutable: every update copies.
type State struct {
	pc    *Term             // path condition
	heap  map[string]*HNode // heap map name -> current version
	alloc *Term             // next free object reference
	nfact int               // number of global facts visible to this state
}

func (s *State) clone() *State {
	h := make(map[string]*HNode, len(s.heap))
	for k, v := range s.heap {
		h[k] = v
	}
	return &State{pc: s.pc, heap: h, alloc: s.alloc, nfact: s.nfact}
}

// Exec-wide context (facts are global, guarded by the pc under which they were assumed).
type Ctx struct {
	facts     []*Term
	heapSorts map[string]*Sort // value sort per heap map
	baseSyms  map[string]*Term
	baseNodes map[string]*HNode
}

func newCtx() *Ctx {
	return &Ctx{heapSorts: map[string]*Sort{}, baseSyms: map[string]*Term{}, baseNodes: map[string]*HNode{}}
}

func (c *Ctx) heapNode(s *State, name string, vsort *Sort) *HNode {
	if n, ok := s.heap[name]; ok {
		return n
	}
	// lazily created base version, shared by all states (same initial heap)
	if old, ok := c.heapSorts[name]; ok && old != vsort {
		panic(fmt.Sprintf("heap map %s used with sorts %s and %s", name, old.Name, vsort.Name))
	}
	c.heapSorts[name] = vsort
	sym, ok := c.baseSyms[name]
	if !ok {
		sym = Sym("H0."+name, arraySort(SInt, vsort))
		c.baseSyms[name] = sym
		heapSymInfo[sym.id] = heapSym{name: name}
	}
	n := c.baseNode(name, sym, vsort)
	s.heap[name] = n
	return n
}

func (c *Ctx) baseNode(name string, sym *Term, vsort *Sort) *HNode {
	if n, ok := c.baseNodes[name]; ok {
		return n
	}
	n := newHNode(hBase, vsort)
	n.sym = sym
	c.baseNodes[name] = n
	return n
}

func (c *Ctx) hread(s *State, name string, vsort *Sort, idx *Term) *Term {
	return c.heapNode(s, name, vsort).read(idx)
}

func (c *Ctx) hwrite(s *State, name string, vsort *Sort, idx, val *Term) {
	c.hwriteB(s, name, vsort, idx, val, s.alloc)
}

// hwriteB: a store whose value is known to contain only references below `at`.
func (c *Ctx) hwriteB(s *State, name string, vsort *Sort, idx, val *Term, at *Term) {
	prev := c.heapNode(s, name, vsort)
	n := newHNode(hStore, vsort)
	n.prev, n.idx, n.val = prev, idx, val
	n.at = at
	s.heap[name] = n
}

// hhavoc replaces the map by an unknown one that agrees with the old version on
// all references below bound, except those in excl.
func (c *Ctx) hhavoc(s *State, name string, vsort *Sort, bound *Term, excl []*Term, why string, post *Term) {
	prev := c.heapNode(s, name, vsort)
	n := newHNode(hHavoc, vsort)
	n.prev = prev
	n.at = post
	n.sym = Fresh("H."+name+"@"+why, arraySort(SInt, vsort))
	heapSymInfo[n.sym.id] = heapSym{name: name, at: post}
	n.bound = bound
	n.excl = excl
	s.heap[name] = n
}

// assume adds a fact guarded by the state's path condition.
func (c *Ctx) assume(s *State, t *Term) {
	if t == True || hasFreeBound(t) {
		return
	}
	c.facts = append(c.facts, Implies(s.pc, t))
	s.nfact = len(c.facts)
}

// assumeGlobal adds an unguarded fact (definitions, axioms instances).
func (c *Ctx) assumeGlobal(s *State, t *Term) {
	if t == True || hasFreeBound(t) {
		return
	}
	c.facts = append(c.facts, t)
	s.nfact = len(c.facts)
}

// mergeStates joins states at a control-flow join. Facts are global, so only pc, heap and alloc merge.
func (c *Ctx) mergeStates(ss []*State) *State {
	if len(ss) == 1 {
		return ss[0].clone()
	}
	out := ss[0].clone()
	for _, s := range ss[1:] {
		cond := s.pc // states are mutually exclusive; use the incoming one's pc as selector
		names := map[string]bool{}
		for k := range out.heap {
			names[k] = true
		}
		for k := range s.heap {
			names[k] = true
		}
		var ks []string
		for k := range names {
			ks = append(ks, k)
		}
		sort.Strings(ks)
		for _, k := range ks {
			a, okA := out.heap[k]
			b, okB := s.heap[k]
			if !okA {
				a = c.heapNode(out, k, c.heapSorts[k])
			}
			if !okB {
				b = c.heapNode(s, k, c.heapSorts[k])
			}
			if a == b {
				continue
			}
			n := newHNode(hMerge, a.vsort)
			n.cond, n.a, n.b = cond, b, a
			out.heap[k] = n
		}
		out.alloc = Ite(cond, s.alloc, out.alloc)
		out.pc = orFactored(out.pc, s.pc)
		if s.nfact > out.nfact {
			out.nfact = s.nfact
		}
	}
	return out
}

var boundMemo = map[int]bool{}

// hasFreeBound reports whether t mentions a bound variable outside its binder.
func hasFreeBound(t *Term) bool {
	free := freeBound(t, map[int]map[int]bool{})
	return len(free) > 0
}

func freeBound(t *Term, memo map[int]map[int]bool) map[int]bool {
	if m, ok := memo[t.id]; ok {
		return m
	}
	out := map[int]bool{}
	switch t.op {
	case "bound":
		out[t.id] = true
	case "forall", "exists":
		n := 0
		fmt.Sscanf(t.val, "%d", &n)
		for _, a := range t.args[n:] {
			for k := range freeBound(a, memo) {
				out[k] = true
			}
		}
		for _, v := range t.args[:n] {
			delete(out, v.id)
		}
	default:
		for _, a := range t.args {
			for k := range freeBound(a, memo) {
				out[k] = true
			}
		}
	}
	memo[t.id] = out
	return out
}

func conjList(t *Term) []*Term {
	if t.op == "and" {
		return t.args
	}
	if t == True {
		return nil
	}
	return []*Term{t}
}

// orFactored computes a \/ b, factoring out the conjuncts the two path conditions share
// (after an if/else diamond the path condition is again that of the branch point).
func orFactored(a, b *Term) *Term {
	ca, cb := conjList(a), conjList(b)
	inB := map[int]bool{}
	for _, t := range cb {
		inB[t.id] = true
	}
	var common, ra, rb []*Term
	inCommon := map[int]bool{}
	for _, t := range ca {
		if inB[t.id] {
			common = append(common, t)
			inCommon[t.id] = true
		} else {
			ra = append(ra, t)
		}
	}
	for _, t := range cb {
		if !inCommon[t.id] {
			rb = append(rb, t)
		}
	}
	rest := Or(And(ra...), And(rb...))
	// (x /\ c) \/ (x /\ not c): handled by Or when the remainders are single complementary literals
	return And(append(common, rest)...)
}
