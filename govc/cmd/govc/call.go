package main

// Calls: prelude handlers, calls by contract, inlining, interface dispatch, closures, builtins.

import (
	"fmt"
	"go/token"
	"go/types"
	"strings"

	"golang.org/x/tools/go/ssa"
)

const maxInlineDepth = 12

func (x *Exec) call(fr *Frame, st *State, cc *ssa.CallCommon, in ssa.Instruction) *Val {
	var args []*Val
	for _, a := range cc.Args {
		args = append(args, x.get(fr, a))
	}
	pos := in.Pos()
	if cc.IsInvoke() {
		recv := x.get(fr, cc.Value)
		return x.invoke(fr, st, recv, cc.Method, args, pos)
	}
	switch callee := cc.Value.(type) {
	case *ssa.Builtin:
		return x.builtin(fr, st, callee, cc, args, in)
	case *ssa.Function:
		return x.callFunc(fr, st, callee, args, nil, pos)
	case *ssa.MakeClosure:
		cv := x.get(fr, callee)
		return x.callClosure(fr, st, cv, args, pos)
	default:
		fv := x.get(fr, cc.Value)
		return x.callClosure(fr, st, fv, args, pos)
	}
}

func (x *Exec) callClosure(fr *Frame, st *State, fv *Val, args []*Val, pos token.Pos) *Val {
	sig := fv.Typ.Underlying().(*types.Signature)
	if fv.Clo != nil {
		if fv.Clo.Fn != nil {
			return x.callFunc(fr, st, fv.Clo.Fn, args, fv.Clo.Bindings, pos)
		}
		// case split over the alternatives
		var out *Val
		base := st.clone()
		var sts []*State
		var vals []*Val
		notNil := True
		for _, al := range fv.Clo.Alts {
			if al.Clo == nil {
				notNil = And(notNil, Not(al.Cond))
			}
		}
		x.oblige(st, "nil", notNil, pos, "call of nil function value")
		base = st.clone()
		for _, al := range fv.Clo.Alts {
			if al.Clo == nil {
				continue
			}
			s := base.clone()
			s.pc = And(base.pc, al.Cond)
			if s.pc == False {
				continue
			}
			v := x.callFunc(fr, s, al.Clo.Fn, args, al.Clo.Bindings, pos)
			if s.pc == False {
				continue
			}
			sts = append(sts, s)
			vals = append(vals, v)
		}
		if len(sts) == 0 {
			st.pc = False
			return x.freshResults(st, "dead", sig.Results())
		}
		m := x.ctx.mergeStates(sts)
		*st = *m
		out = vals[0]
		for i := 1; i < len(vals); i++ {
			out = x.iteVal(sts[i].pc, vals[i], out)
		}
		return out
	}
	// a value read back from a data structure that may hold function constants of this job
	if fv.T != nil && len(x.fnConsts) > 0 && (fv.T.op == "select" || fv.T.op == "ite" || strings.HasPrefix(fv.T.op, "at.") || fv.T.op == "const") {
		var alts []CloAlt
		for _, fc := range x.fnConsts {
			if types.Identical(fc.clo.Fn.Signature.Underlying(), sig) || fc.clo.Fn.Signature.Params().Len() == sig.Params().Len() {
				alts = append(alts, CloAlt{Cond: Eq(fv.T, fc.term), Clo: fc.clo})
			}
		}
		if len(alts) > 0 {
			known := False
			for _, al := range alts {
				known = Or(known, al.Cond)
			}
			// the value is one of the stored constants (nothing else is ever stored in such a slot in this job)
			x.oblige(st, "fnconst", known, pos, "called function value is one of the closures stored in this function")
			x.ctx.assume(st, known)
			return x.callClosure(fr, st, &Val{Typ: fv.Typ, Clo: &Closure{Alts: alts}}, args, pos)
		}
	}
	// opaque function value: modelled as a pure uninterpreted function of its arguments (A-PUREFN)
	x.trusted["A-PUREFN"] = true
	if fv.T == nil {
		unsupportedf("call of unknown function value")
	}
	x.oblige(st, "nil", Neq(fv.T, IntLit(0)), pos, "call of nil function value")
	return x.applyOpaque(st, fv.T, sig, args)
}

func (x *Exec) applyOpaque(st *State, f *Term, sig *types.Signature, args []*Val) *Val {
	ts := []*Term{f}
	name := "apply"
	for _, a := range args {
		if a.T == nil {
			unsupportedf("opaque function applied to a non-term argument")
		}
		ts = append(ts, a.T)
		name += "." + sanitize(a.T.sort.Name)
	}
	res := sig.Results()
	mk := func(i int, t types.Type) *Val {
		s := TE.SortOf(t)
		v := UF(fmt.Sprintf("%s->%d.%s", name, i, sanitize(s.Name)), s, ts...)
		// results of pointer-like types are only known to be well-formed
		x.assumeType(st, v, t)
		return &Val{T: v, Typ: t}
	}
	switch res.Len() {
	case 0:
		return &Val{}
	case 1:
		return mk(0, res.At(0).Type())
	}
	out := &Val{Typ: res}
	for i := 0; i < res.Len(); i++ {
		out.Tuple = append(out.Tuple, mk(i, res.At(i).Type()))
	}
	return out
}

func (x *Exec) freshResults(st *State, name string, res *types.Tuple) *Val {
	switch res.Len() {
	case 0:
		return &Val{}
	case 1:
		return x.freshVal(st, name, res.At(0).Type())
	}
	return x.freshVal(st, name, res)
}

func funcKey(fn *ssa.Function) string {
	if fn.Pkg == nil {
		if fn.Origin() != nil && fn.Origin().Pkg != nil {
			return fn.Origin().Pkg.Pkg.Path() + "." + relName(fn)
		}
		if p := fn.Parent(); p != nil {
			return strings.TrimSuffix(funcKey(rootParent(fn)), relName(rootParent(fn))) + relName(fn)
		}
		return fn.String()
	}
	return fn.Pkg.Pkg.Path() + "." + relName(fn)
}

func rootParent(fn *ssa.Function) *ssa.Function {
	for fn.Parent() != nil {
		fn = fn.Parent()
	}
	return fn
}

// relName: name of the function relative to its package, e.g. "(*time).Plus", "parse$1".
func relName(fn *ssa.Function) string {
	var pkg *types.Package
	if fn.Pkg != nil {
		pkg = fn.Pkg.Pkg
	} else if o := fn.Origin(); o != nil && o.Pkg != nil {
		pkg = o.Pkg.Pkg
	} else if p := rootParent(fn); p != fn {
		if p.Pkg != nil {
			pkg = p.Pkg.Pkg
		} else if o := p.Origin(); o != nil && o.Pkg != nil {
			pkg = o.Pkg.Pkg
		}
	}
	return fn.RelString(pkg)
}

func (x *Exec) callFunc(fr *Frame, st *State, callee *ssa.Function, args []*Val, free []*Val, pos token.Pos) *Val {
	key := funcKey(callee)
	if h, ok := prelude[key]; ok {
		return h(x, st, callee, args, pos)
	}
	if h := preludeByPrefix(key); h != nil {
		return h(x, st, callee, args, pos)
	}
	c := x.prog.contractFor(callee)
	if c != nil && !c.Inline && c.hasSpec() && !(x.job.fn == callee && x.depth == 0) {
		return x.callByContract(fr, st, callee, c, args, free, pos)
	}
	if len(callee.Blocks) == 0 {
		return x.unmodelled(st, callee, args)
	}
	if !x.prog.inModule(callee) {
		return x.unmodelled(st, callee, args)
	}
	// inline
	for _, s := range x.callStack {
		if s == key {
			unsupportedf("recursive inlining of %s", key)
		}
	}
	if x.depth >= maxInlineDepth {
		unsupportedf("inlining too deep at %s", key)
	}
	x.depth++
	x.callStack = append(x.callStack, key)
	x.siteStack = append(x.siteStack, pos)
	nf := x.newFrame(callee, args, free, st, fr)
	rv, rs := x.run(nf, st.clone())
	x.siteStack = x.siteStack[:len(x.siteStack)-1]
	x.callStack = x.callStack[:len(x.callStack)-1]
	x.depth--
	if rs == nil {
		st.pc = False
		return x.freshResults(st, "dead", callee.Signature.Results())
	}
	*st = *rs
	return rv
}

func (x *Exec) unmodelled(st *State, callee *ssa.Function, args []*Val) *Val {
	x.unmod[funcKey(callee)] = true
	return x.freshResults(st, "unmodelled."+callee.Name(), callee.Signature.Results())
}

// callByContract: assert requires, havoc the callee's write set, assume ensures.
func (x *Exec) callByContract(fr *Frame, st *State, callee *ssa.Function, c *Contract, args []*Val, free []*Val, pos token.Pos) *Val {
	c.Bound = true
	if c.Trusted {
		x.trusted["TRUSTED-CONTRACT "+jobName(callee)] = true
	}
	nf := x.newFrame(callee, args, free, st, fr)
	nf.contract = c
	pre := st.clone()
	// requires
	for _, r := range x.evalClauses(nf, st, c.clauses("requires", 0), nil, "requires") {
		x.oblige(st, "pre("+relName(callee)+")", r.t, pos, r.cl.Src)
	}
	_ = 0
	for _, a := range args {
		x.checkInv(st, a, pos, "when passed to "+relName(callee))
	}
	nf.entry = pre
	// frame: modifies targets evaluated in the pre-state
	excl := map[string][]*Term{}
	anyOf := map[string]bool{}
	if !c.NoFrame {
		ev := &evaluator{x: x, fr: nf, st: pre, lets: map[string]*Val{}}
		for _, m := range c.Modifies {
			name, ref, all := ev.modTarget(m)
			if all {
				anyOf[name] = true
			} else {
				excl[name] = append(excl[name], ref)
				for _, nm := range expandMod(name) {
					excl[nm] = append(excl[nm], ref)
				}
			}
			// the caller itself must be allowed to modify it
			if !all {
				x.noteWrite(st, name, ref)
				for _, nm := range expandMod(name) {
					x.noteWrite(st, nm, ref)
				}
			}
		}
	}
	// havoc
	ws := x.prog.writeSet(callee)
	bound := st.alloc
	na := Fresh("alloc@"+relName(callee), SInt)
	x.ctx.assume(st, Ge(na, st.alloc))
	for _, name := range sortedKeys(ws) {
		w := ws[name]
		vs, ok := x.ctx.heapSorts[name]
		if !ok {
			vs = w.sort
			if vs == nil {
				continue
			}
		}
		if strings.HasPrefix(name, "cell:") && !w.oldObjects {
			continue // callee-local cells are invisible to the caller
		}
		if c.NoFrame || anyOf[name] || (strings.HasPrefix(name, "cell:") && w.oldObjects) {
			// captured variables written by a closure are part of its (implicit) frame
			x.ctx.hhavoc(st, name, vs, nil, nil, relName(callee), na)
		} else {
			x.ctx.hhavoc(st, name, vs, bound, excl[name], relName(callee), na)
		}
	}
	st.alloc = na
	res := x.freshResults(st, "r."+relName(callee), callee.Signature.Results())
	nf.results = res
	// names bound inside the callee's body (before <callee> bind n = e) are unknown constants for the caller: the
	// postconditions that mention them hold for some value (an integer: binds name indices)
	for _, cl := range c.Clauses {
		if cl.Kind == "bind" {
			if _, ok := nf.lets[cl.Bind]; !ok {
				nf.lets[cl.Bind] = &Val{T: Fresh("bound."+cl.Bind, SInt), Typ: types.Typ[types.Int]}
			}
		}
	}
	for _, r := range x.evalClauses(nf, st, c.clauses("ensures", 0), nil, "ensures") {
		x.assumeFact(st, r.t)
	}
	// `defines`: the clause gives an uninterpreted spec symbol its meaning ("blank(l) is what IsBlank returns");
	// it is assumed at call sites and not an obligation of the body (listed among the assumptions)
	for _, r := range x.evalClauses(nf, st, c.clauses("defines", 0), nil, "defines") {
		x.trusted["DEFINITION by "+jobName(callee)+": "+r.cl.Src] = true
		x.assumeFact(st, r.t)
	}
	return res
}

// invoke: closed-world dispatch over the module's implementations of the interface method.
func (x *Exec) invoke(fr *Frame, st *State, recv *Val, m *types.Func, args []*Val, pos token.Pos) *Val {
	if recv.T == nil {
		unsupportedf("invoke on non-term receiver")
	}
	sig := m.Type().(*types.Signature)
	if h, ok := preludeInvoke[m.FullName()]; ok {
		return h(x, st, recv, args, pos)
	}
	impls := x.prog.implementers(recv.Typ)
	if impls == nil {
		x.unmod["invoke "+m.FullName()] = true
		x.oblige(st, "nil", Neq(ifTag(recv.T), IntLit(0)), pos, "method call on nil interface")
		return x.freshResults(st, "unmodelled."+m.Name(), sig.Results())
	}
	x.trusted["A-CLOSED"] = true
	x.oblige(st, "nil", Neq(ifTag(recv.T), IntLit(0)), pos, "method call on nil interface value ("+m.Name()+")")
	base := st.clone()
	var sts []*State
	var vals []*Val
	for _, it := range impls {
		cond := Eq(ifTag(recv.T), IntLit(int64(TE.TagOf(it))))
		s := base.clone()
		s.pc = And(base.pc, cond)
		if s.pc == False {
			continue
		}
		// avoid infinite descent through wrappers that embed the same interface
		fn := x.prog.methodOf(it, m)
		if fn == nil {
			unsupportedf("no method %s on %s", m.Name(), it)
		}
		skip := false
		for _, k := range x.callStack {
			if k == funcKey(fn) {
				skip = true
			}
		}
		if skip {
			// a wrapper that embeds the interface it implements: nesting must be excluded by a type invariant
			x.oblige(base, "no-nesting", Not(cond), pos, "dynamic type "+shortTypeName(it)+" nested inside itself")
			continue
		}
		rv := x.ifaceAs(s, recv.T, it)
		v := x.callFunc(fr, s, fn, append([]*Val{rv}, args...), nil, pos)
		if s.pc == False {
			continue
		}
		sts = append(sts, s)
		vals = append(vals, v)
	}
	if len(sts) == 0 {
		st.pc = False
		return x.freshResults(st, "dead", sig.Results())
	}
	mrg := x.ctx.mergeStates(sts)
	*st = *mrg
	// the merged pc is a disjunction over tags; by the typing assumption it equals the original pc
	st.pc = base.pc
	out := vals[0]
	for i := 1; i < len(vals); i++ {
		out = x.iteVal(sts[i].pc, vals[i], out)
	}
	return out
}

// ---------- builtins ----------

func (x *Exec) builtin(fr *Frame, st *State, b *ssa.Builtin, cc *ssa.CallCommon, args []*Val, in ssa.Instruction) *Val {
	switch b.Name() {
	case "len":
		a := args[0]
		switch at := a.Typ.Underlying().(type) {
		case *types.Basic:
			return &Val{T: strLen(a.T), Typ: types.Typ[types.Int]}
		case *types.Slice:
			return &Val{T: slLen(a.T), Typ: types.Typ[types.Int]}
		case *types.Map:
			return &Val{T: x.mapLen(st, a), Typ: types.Typ[types.Int]}
		case *types.Array:
			return &Val{T: IntLit(at.Len()), Typ: types.Typ[types.Int]}
		}
	case "cap":
		a := args[0]
		if _, ok := a.Typ.Underlying().(*types.Slice); ok {
			c := UF("cap", SInt, a.T)
			x.ctx.assume(st, Ge(c, slLen(a.T)))
			return &Val{T: c, Typ: types.Typ[types.Int]}
		}
	case "append":
		return x.appendOp(st, args[0], args[1], in.(ssa.Value).Type())
	case "copy":
		unsupportedf("builtin copy")
	case "delete":
		x.mapDelete(st, args[0], args[1], in.Pos())
		return &Val{}
	case "ssa:wrapnilchk":
		if args[0].T == nil {
			return args[0]
		}
		x.oblige(st, "nil", Neq(args[0].T, IntLit(0)), in.Pos(), "value method called through nil pointer")
		return args[0]
	case "print", "println":
		return &Val{}
	case "min", "max":
		r := args[0].T
		for _, a := range args[1:] {
			if b.Name() == "min" {
				r = Ite(Lt(a.T, r), a.T, r)
			} else {
				r = Ite(Gt(a.T, r), a.T, r)
			}
		}
		return &Val{T: r, Typ: args[0].Typ}
	}
	unsupportedf("builtin %s on %v", b.Name(), cc.Args)
	return nil
}

// appendOp models append(s, t...) as allocation of a fresh backing array (A-APPEND).
func (x *Exec) appendOp(st *State, s, t *Val, rt types.Type) *Val {
	x.trusted["A-APPEND"] = true
	elemT := rt.Underlying().(*types.Slice).Elem()
	es := TE.SortOf(elemT)
	name := arrMapName(elemT)
	asort := arraySort(SInt, es)
	var tv *Term
	if bt, ok := t.Typ.Underlying().(*types.Basic); ok && bt.Info()&types.IsString != 0 {
		unsupportedf("append(bytes, string...)")
	}
	tv = t.T
	oldArr := x.ctx.hread(st, name, asort, slRef(s.T))
	ref := x.allocRef(st)
	base := Add(slOff(s.T), slLen(s.T))
	var newArr *Term
	// Special case: the appended slice is a freshly built literal of known length (append(s, x) compiles to this).
	if n, ok := slLen(tv).intVal(); ok && n <= 16 {
		newArr = oldArr
		for i := int64(0); i < n; i++ {
			newArr = Store(newArr, Add(base, IntLit(i)), x.readElem(st, elemT, tv, IntLit(i)))
		}
	} else {
		newArr = Fresh("append", asort)
		tArr := x.ctx.hread(st, name, asort, slRef(tv))
		j := BoundVar("j", SInt)
		x.ctx.assume(st, Forall([]*Term{j}, And(
			Implies(Lt(j, base), Eq(Select(newArr, j), Select(oldArr, j))),
			Implies(And(Le(base, j), Lt(j, Add(base, slLen(tv)))), Eq(Select(newArr, j), Select(tArr, Add(slOff(tv), Sub(j, base)))))),
			[]*Term{Select(newArr, j)}))
		// the same in terms of the at-function (triggers for quantified contract clauses)
		atn := "at." + sanitize(es.Name)
		DeclareFun(atn, es, asort, SInt, SInt)
		k := BoundVar("k", SInt)
		off := slOff(s.T)
		x.ctx.assume(st, Forall([]*Term{k}, And(
			Implies(And(Le(IntLit(0), k), Lt(k, slLen(s.T))), Eq(App(atn, es, newArr, off, k), App(atn, es, oldArr, off, k))),
			Implies(And(Le(slLen(s.T), k), Lt(k, Add(slLen(s.T), slLen(tv)))), Eq(App(atn, es, newArr, off, k), App(atn, es, tArr, slOff(tv), Sub(k, slLen(s.T)))))),
			[]*Term{App(atn, es, newArr, off, k)}))
	}
	x.ctx.hwrite(st, name, asort, ref, newArr)
	return &Val{T: mkSlice(ref, slOff(s.T), Add(slLen(s.T), slLen(tv))), Typ: rt}
}

// expandMod: heap maps that belong to the same modifies location as `name` (a map's values and size, the parts of the
// ghost file system).
func expandMod(name string) []string {
	switch {
	case strings.HasPrefix(name, "mapdom:"):
		return []string{strings.Replace(name, "mapdom:", "mapval:", 1), strings.Replace(name, "mapdom:", "mapsize:", 1)}
	case name == ghostWrites:
		return []string{ghostLastPath, ghostLastData}
	}
	return nil
}
