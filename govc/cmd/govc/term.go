package main

// Term DAG with hash-consing, light simplification and SMT-LIB printing.

import (
	"fmt"
	"sort"
	"strconv"
	"strings"
)

type Sort struct {
	Name string // SMT-LIB spelling
}

var sortTab = map[string]*Sort{}

func mkSort(name string) *Sort {
	if s, ok := sortTab[name]; ok {
		return s
	}
	s := &Sort{name}
	sortTab[name] = s
	return s
}

var (
	SInt   = mkSort("Int")
	SBool  = mkSort("Bool")
	SStr   = mkSort("Str")
	SIface = mkSort("Iface")
	SSlice = mkSort("Slice")
)

func arraySort(k, v *Sort) *Sort { return mkSort("(Array " + k.Name + " " + v.Name + ")") }

func (s *Sort) isArray() bool { return strings.HasPrefix(s.Name, "(Array ") }

// elemSort returns the value sort of an array sort.
func (s *Sort) arrayParts() (k, v *Sort) {
	// "(Array K V)" with nested parens
	body := s.Name[len("(Array ") : len(s.Name)-1]
	depth := 0
	for i := 0; i < len(body); i++ {
		switch body[i] {
		case '(':
			depth++
		case ')':
			depth--
		case ' ':
			if depth == 0 {
				return mkSort(body[:i]), mkSort(body[i+1:])
			}
		}
	}
	panic("bad array sort " + s.Name)
}

type Term struct {
	id   int
	op   string // "const" (numeral/bool literal in val), "sym" (declared symbol in val), or SMT operator / function name
	val  string
	args []*Term
	sort *Sort
}

type TermStore struct {
	tab   map[string]*Term
	next  int
	syms  map[string]*Term   // declared constants
	funs  map[string]string  // declared functions: name -> "(args) ret"
	fresh map[string]int
}

var TS = &TermStore{tab: map[string]*Term{}, syms: map[string]*Term{}, funs: map[string]string{}, fresh: map[string]int{}}

func (ts *TermStore) mk(op, val string, sort *Sort, args ...*Term) *Term {
	var sb strings.Builder
	sb.WriteString(op)
	sb.WriteByte('|')
	sb.WriteString(val)
	sb.WriteByte('|')
	sb.WriteString(sort.Name)
	for _, a := range args {
		sb.WriteByte(',')
		sb.WriteString(strconv.Itoa(a.id))
	}
	k := sb.String()
	if t, ok := ts.tab[k]; ok {
		return t
	}
	ts.next++
	t := &Term{id: ts.next, op: op, val: val, args: args, sort: sort}
	ts.tab[k] = t
	return t
}

func Sym(name string, sort *Sort) *Term {
	if t, ok := TS.syms[name]; ok {
		if t.sort != sort {
			panic("symbol redeclared with different sort: " + name)
		}
		return t
	}
	t := TS.mk("sym", name, sort)
	TS.syms[name] = t
	return t
}

// Fresh returns a new symbol with a readable, unique name.
func Fresh(prefix string, sort *Sort) *Term {
	prefix = sanitize(prefix)
	for {
		TS.fresh[prefix]++
		name := fmt.Sprintf("%s!%d", prefix, TS.fresh[prefix])
		if _, ok := TS.syms[name]; !ok {
			return Sym(name, sort)
		}
	}
}

func sanitize(s string) string {
	var sb strings.Builder
	for _, c := range s {
		switch {
		case c >= 'a' && c <= 'z', c >= 'A' && c <= 'Z', c >= '0' && c <= '9', c == '_', c == '.', c == '$', c == '!', c == '#', c == '@', c == '-', c == '+', c == '/', c == '*', c == '[', c == ']', c == ':', c == ',', c == '(', c == ')', c == '<', c == '>', c == '=', c == '\'':
			sb.WriteRune(c)
		default:
			sb.WriteByte('_')
		}
	}
	return sb.String()
}

// App applies a declared (uninterpreted or defined) function.
func App(fn string, ret *Sort, args ...*Term) *Term {
	return TS.mk(fn, "", ret, args...)
}

// DeclareFun registers an uninterpreted function signature (idempotent).
func DeclareFun(name string, ret *Sort, args ...*Sort) {
	var as []string
	for _, a := range args {
		as = append(as, a.Name)
	}
	sig := "(" + strings.Join(as, " ") + ") " + ret.Name
	if old, ok := TS.funs[name]; ok && old != sig {
		panic("function redeclared: " + name + " " + old + " vs " + sig)
	}
	TS.funs[name] = sig
}

func UF(name string, ret *Sort, args ...*Term) *Term {
	var ss []*Sort
	for _, a := range args {
		ss = append(ss, a.sort)
	}
	DeclareFun(name, ret, ss...)
	return App(name, ret, args...)
}

func IntLit(n int64) *Term {
	return TS.mk("const", strconv.FormatInt(n, 10), SInt)
}

func IntLitStr(s string) *Term { return TS.mk("const", s, SInt) }

var (
	True  = TS.mk("const", "true", SBool)
	False = TS.mk("const", "false", SBool)
)

func BoolLit(b bool) *Term {
	if b {
		return True
	}
	return False
}

func (t *Term) isConst() bool { return t.op == "const" }
func (t *Term) intVal() (int64, bool) {
	if t.op == "const" && t.sort == SInt {
		v, err := strconv.ParseInt(t.val, 10, 64)
		if err == nil {
			return v, true
		}
	}
	return 0, false
}

func Not(a *Term) *Term {
	if a == True {
		return False
	}
	if a == False {
		return True
	}
	if a.op == "not" {
		return a.args[0]
	}
	return TS.mk("not", "", SBool, a)
}

func And(as ...*Term) *Term {
	var out []*Term
	seen := map[int]bool{}
	for _, a := range as {
		if a == True {
			continue
		}
		if a == False {
			return False
		}
		if a.op == "and" {
			for _, b := range a.args {
				if !seen[b.id] {
					seen[b.id] = true
					out = append(out, b)
				}
			}
			continue
		}
		if !seen[a.id] {
			seen[a.id] = true
			out = append(out, a)
		}
	}
	for _, a := range out {
		if seen[Not(a).id] && a.op != "not" {
			// a and (not a)
			if Not(a).op == "not" && containsID(out, Not(a).id) {
				return False
			}
		}
	}
	switch len(out) {
	case 0:
		return True
	case 1:
		return out[0]
	}
	return TS.mk("and", "", SBool, out...)
}

func containsID(ts []*Term, id int) bool {
	for _, t := range ts {
		if t.id == id {
			return true
		}
	}
	return false
}

func Or(as ...*Term) *Term {
	var out []*Term
	seen := map[int]bool{}
	for _, a := range as {
		if a == False {
			continue
		}
		if a == True {
			return True
		}
		if a.op == "or" {
			for _, b := range a.args {
				if !seen[b.id] {
					seen[b.id] = true
					out = append(out, b)
				}
			}
			continue
		}
		if !seen[a.id] {
			seen[a.id] = true
			out = append(out, a)
		}
	}
	for _, a := range out {
		if a.op == "not" && seen[a.args[0].id] {
			return True
		}
	}
	switch len(out) {
	case 0:
		return False
	case 1:
		return out[0]
	}
	return TS.mk("or", "", SBool, out...)
}

func Implies(a, b *Term) *Term {
	if a == True {
		return b
	}
	if a == False || b == True {
		return True
	}
	if b == False {
		return Not(a)
	}
	return TS.mk("=>", "", SBool, a, b)
}

func Ite(c, a, b *Term) *Term {
	if c == True {
		return a
	}
	if c == False {
		return b
	}
	if a == b {
		return a
	}
	if a.sort != b.sort {
		panic(fmt.Sprintf("ite sort mismatch %s vs %s", a.sort.Name, b.sort.Name))
	}
	if a.sort == SBool {
		if a == True && b == False {
			return c
		}
		if a == False && b == True {
			return Not(c)
		}
	}
	return TS.mk("ite", "", a.sort, c, a, b)
}

func Eq(a, b *Term) *Term {
	if a == b {
		return True
	}
	if a.sort != b.sort {
		panic(fmt.Sprintf("eq sort mismatch %s vs %s (%s ; %s)", a.sort.Name, b.sort.Name, a.String(), b.String()))
	}
	if a.isConst() && b.isConst() {
		return BoolLit(a.val == b.val)
	}
	if a.sort == SBool {
		if a == True {
			return b
		}
		if b == True {
			return a
		}
		if a == False {
			return Not(b)
		}
		if b == False {
			return Not(a)
		}
	}
	// equality of a constructor with a conditional whose leaves are constructors: distribute
	if isCtor(b) && a.op == "ite" && ctorLeaves(a, 0) {
		return Ite(a.args[0], Eq(a.args[1], b), Eq(a.args[2], b))
	}
	if isCtor(a) && b.op == "ite" && ctorLeaves(b, 0) {
		return Ite(b.args[0], Eq(a, b.args[1]), Eq(a, b.args[2]))
	}
	// constructor applications with same constructor: compare fieldwise
	if a.op == b.op && strings.HasPrefix(a.op, "mk") && len(a.args) == len(b.args) && a.op != "" {
		var cs []*Term
		for i := range a.args {
			cs = append(cs, Eq(a.args[i], b.args[i]))
		}
		return And(cs...)
	}
	if a.id > b.id {
		a, b = b, a
	}
	return TS.mk("=", "", SBool, a, b)
}

func Neq(a, b *Term) *Term { return Not(Eq(a, b)) }

func isCtor(t *Term) bool { return strings.HasPrefix(t.op, "mk") && t.op != "mk" }

func ctorLeaves(t *Term, depth int) bool {
	if depth > 6 {
		return false
	}
	if t.op == "ite" {
		return ctorLeaves(t.args[1], depth+1) && ctorLeaves(t.args[2], depth+1)
	}
	return isCtor(t)
}

func arith(op string, a, b *Term) *Term {
	x, okx := a.intVal()
	y, oky := b.intVal()
	if okx && oky {
		switch op {
		case "+":
			if r := x + y; (r > x) == (y > 0) {
				return IntLit(r)
			}
		case "-":
			if r := x - y; (r < x) == (y > 0) {
				return IntLit(r)
			}
		case "*":
			if x == 0 || y == 0 {
				return IntLit(0)
			}
			r := x * y
			if r/y == x && !(x == -1 && y == -1<<63) && !(y == -1 && x == -1<<63) {
				return IntLit(r)
			}
		}
	}
	switch op {
	case "+":
		if okx && x == 0 {
			return b
		}
		if oky && y == 0 {
			return a
		}
		// (a + c1) + c2
		if oky && a.op == "+" && len(a.args) == 2 {
			if c1, ok := a.args[1].intVal(); ok {
				if r := c1 + y; (r > c1) == (y > 0) {
					return arith("+", a.args[0], IntLit(r))
				}
			}
		}
	case "-":
		if oky && y == 0 {
			return a
		}
		if a == b {
			return IntLit(0)
		}
		if oky && y != -1<<63 {
			return arith("+", a, IntLit(-y))
		}
	case "*":
		if okx && x == 1 {
			return b
		}
		if oky && y == 1 {
			return a
		}
		if (okx && x == 0) || (oky && y == 0) {
			return IntLit(0)
		}
	}
	return TS.mk(op, "", SInt, a, b)
}

func Add(a, b *Term) *Term { return arith("+", a, b) }
func Sub(a, b *Term) *Term { return arith("-", a, b) }
func Mul(a, b *Term) *Term { return arith("*", a, b) }
func Neg(a *Term) *Term   { return Sub(IntLit(0), a) }

func cmp(op string, a, b *Term) *Term {
	x, okx := a.intVal()
	y, oky := b.intVal()
	if okx && oky {
		switch op {
		case "<":
			return BoolLit(x < y)
		case "<=":
			return BoolLit(x <= y)
		}
	}
	if a == b {
		return BoolLit(op == "<=")
	}
	return TS.mk(op, "", SBool, a, b)
}

func Lt(a, b *Term) *Term { return cmp("<", a, b) }
func Le(a, b *Term) *Term { return cmp("<=", a, b) }
func Gt(a, b *Term) *Term { return cmp("<", b, a) }
func Ge(a, b *Term) *Term { return cmp("<=", b, a) }

// EDiv / EMod are SMT-LIB's Euclidean div/mod (divisor must be non-zero).
func EDiv(a, b *Term) *Term { return TS.mk("div", "", SInt, a, b) }
func EMod(a, b *Term) *Term { return TS.mk("mod", "", SInt, a, b) }

// GoDiv / GoRem: Go's truncated division on mathematical integers.
func GoDiv(a, b *Term) *Term {
	x, okx := a.intVal()
	y, oky := b.intVal()
	if okx && oky && y != 0 && !(x == -1<<63 && y == -1) {
		return IntLit(x / y)
	}
	if oky && y > 0 {
		return Ite(Ge(a, IntLit(0)), EDiv(a, b), Neg(EDiv(Neg(a), b)))
	}
	if oky && y < 0 && y != -1<<63 {
		return Neg(GoDiv(a, IntLit(-y)))
	}
	// general: sign(a)*sign(b) * (|a| div |b|)
	abs := func(t *Term) *Term { return Ite(Ge(t, IntLit(0)), t, Neg(t)) }
	q := EDiv(abs(a), abs(b))
	same := Eq(Ge(a, IntLit(0)), Ge(b, IntLit(0)))
	return Ite(same, q, Neg(q))
}

func GoRem(a, b *Term) *Term {
	x, okx := a.intVal()
	y, oky := b.intVal()
	if okx && oky && y != 0 && !(x == -1<<63 && y == -1) {
		return IntLit(x % y)
	}
	return Sub(a, Mul(b, GoDiv(a, b)))
}

func Select(arr, idx *Term) *Term {
	_, v := arr.sort.arrayParts()
	// select over store with syntactically equal / distinct constant index
	for arr.op == "store" {
		if arr.args[1] == idx {
			return arr.args[2]
		}
		a, oka := arr.args[1].intVal()
		b, okb := idx.intVal()
		if oka && okb && a != b {
			arr = arr.args[0]
			continue
		}
		break
	}
	if arr.op == "constarr" {
		return arr.args[0]
	}
	return TS.mk("select", "", v, arr, idx)
}

func Store(arr, idx, val *Term) *Term {
	_, v := arr.sort.arrayParts()
	if v != val.sort {
		panic(fmt.Sprintf("store sort mismatch: array %s value %s", arr.sort.Name, val.sort.Name))
	}
	return TS.mk("store", "", arr.sort, arr, idx, val)
}

func ConstArr(sort *Sort, val *Term) *Term {
	return TS.mk("constarr", "", sort, val)
}

// Ctor / Acc for datatypes. Constructor names start with "mk".
func Ctor(name string, sort *Sort, args ...*Term) *Term { return TS.mk(name, "", sort, args...) }

func Acc(name string, idx int, sort *Sort, t *Term) *Term {
	if strings.HasPrefix(t.op, "mk") && idx < len(t.args) && t.op != "mk" {
		return t.args[idx]
	}
	if t.op == "ite" {
		// push accessor through ite when both sides are constructors (keeps terms small)
		a, b := t.args[1], t.args[2]
		if strings.HasPrefix(a.op, "mk") || strings.HasPrefix(b.op, "mk") {
			return Ite(t.args[0], Acc(name, idx, sort, a), Acc(name, idx, sort, b))
		}
	}
	return TS.mk(name, strconv.Itoa(idx), sort, t)
}

// Quantifiers. Bound variables are symbols created with BoundVar.
func BoundVar(name string, sort *Sort) *Term {
	TS.fresh["bv"]++
	return TS.mk("bound", fmt.Sprintf("%s?%d", sanitize(name), TS.fresh["bv"]), sort)
}

// patternOK: solvers reject patterns that contain boolean connectives, ite or arithmetic comparison.
func patternOK(t *Term) bool {
	switch t.op {
	case "and", "or", "not", "ite", "=>", "=", "<", "<=", "forall", "exists":
		return false
	}
	for _, a := range t.args {
		if !patternOK(a) {
			return false
		}
	}
	return true
}

func Forall(vars []*Term, body *Term, patterns ...[]*Term) *Term {
	if body == True {
		return True
	}
	var okp [][]*Term
	for _, p := range patterns {
		good := true
		for _, t := range p {
			if !patternOK(t) {
				good = false
			}
		}
		if good {
			okp = append(okp, p)
		}
	}
	patterns = okp
	args := append([]*Term{}, vars...)
	args = append(args, body)
	val := strconv.Itoa(len(vars))
	for _, p := range patterns {
		val += "|" + strconv.Itoa(len(p))
		args = append(args, p...)
	}
	return TS.mk("forall", val, SBool, args...)
}

func Exists(vars []*Term, body *Term) *Term {
	if body == False {
		return False
	}
	args := append([]*Term{}, vars...)
	args = append(args, body)
	return TS.mk("exists", strconv.Itoa(len(vars)), SBool, args...)
}

// ---------- printing ----------

func quoteSym(s string) string {
	if strings.Contains(s, "|") {
		s = strings.ReplaceAll(s, "|", "_")
	}
	for _, c := range s {
		if !(c >= 'a' && c <= 'z' || c >= 'A' && c <= 'Z' || c >= '0' && c <= '9' || c == '_' || c == '.' || c == '$' || c == '!') {
			return "|" + s + "|"
		}
	}
	return s
}

func (t *Term) String() string {
	var sb strings.Builder
	p := &printer{shared: map[int]bool{}}
	p.write(&sb, t)
	return sb.String()
}

type printer struct {
	shared map[int]bool // term ids that are printed by name (tN)
	limit  int          // >0: stop descending once this many characters have been written (debug output)
	hit    bool         // the limit was reached (the text is incomplete)
}

// StringN prints at most about n characters of the term (terms are DAGs: the full text can be exponentially long).
func (t *Term) StringN(n int) string {
	var sb strings.Builder
	p := &printer{shared: map[int]bool{}, limit: n}
	p.write(&sb, t)
	return sb.String()
}

func (p *printer) write(sb *strings.Builder, t *Term) {
	if p.limit > 0 && sb.Len() > p.limit {
		p.hit = true
		sb.WriteString("…")
		return
	}
	if p.shared[t.id] {
		fmt.Fprintf(sb, "t%d", t.id)
		return
	}
	p.writeBody(sb, t)
}

func (p *printer) writeBody(sb *strings.Builder, t *Term) {
	switch t.op {
	case "const":
		if t.sort == SInt && strings.HasPrefix(t.val, "-") {
			sb.WriteString("(- " + t.val[1:] + ")")
		} else {
			sb.WriteString(t.val)
		}
	case "sym", "bound":
		sb.WriteString(quoteSym(t.val))
	case "constarr":
		// cvc5 requires a syntactic value here: print the element without references to defined names
		sb.WriteString("((as const " + t.sort.Name + ") ")
		(&printer{shared: map[int]bool{}}).write(sb, t.args[0])
		sb.WriteString(")")
	case "forall", "exists":
		parts := strings.Split(t.val, "|")
		n, _ := strconv.Atoi(parts[0])
		sb.WriteString("(" + t.op + " (")
		for i := 0; i < n; i++ {
			sb.WriteString("(" + quoteSym(t.args[i].val) + " " + t.args[i].sort.Name + ")")
		}
		sb.WriteString(") ")
		if len(parts) > 1 {
			sb.WriteString("(! ")
		}
		p.write(sb, t.args[n])
		if len(parts) > 1 {
			k := n + 1
			for _, ps := range parts[1:] {
				m, _ := strconv.Atoi(ps)
				sb.WriteString(" :pattern (")
				for j := 0; j < m; j++ {
					if j > 0 {
						sb.WriteByte(' ')
					}
					p.write(sb, t.args[k])
					k++
				}
				sb.WriteString(")")
			}
			sb.WriteString(")")
		}
		sb.WriteString(")")
	default:
		name := t.op
		if t.val != "" && !strings.HasPrefix(t.op, "mk") {
			// accessor: op is accessor name
		}
		if len(t.args) == 0 {
			sb.WriteString(quoteSym(name))
			return
		}
		sb.WriteString("(" + quoteSym(name))
		for _, a := range t.args {
			sb.WriteByte(' ')
			p.write(sb, a)
		}
		sb.WriteString(")")
	}
}

// collect gathers all subterms reachable from roots, with reference counts.
func collect(roots []*Term) (order []*Term, refs map[int]int) {
	refs = map[int]int{}
	seen := map[int]bool{}
	var visit func(t *Term)
	visit = func(t *Term) {
		refs[t.id]++
		if seen[t.id] {
			return
		}
		seen[t.id] = true
		for _, a := range t.args {
			visit(a)
		}
		order = append(order, t)
	}
	for _, r := range roots {
		visit(r)
	}
	return
}

// hasBound reports whether a term mentions a bound variable (cannot be hoisted into a define-fun).
func hasBoundMemo(t *Term, memo map[int]bool) bool {
	if v, ok := memo[t.id]; ok {
		return v
	}
	r := t.op == "bound"
	if !r {
		for _, a := range t.args {
			if hasBoundMemo(a, memo) {
				r = true
				break
			}
		}
	}
	memo[t.id] = r
	return r
}

// Script builds an SMT-LIB script: declarations for every symbol/function used by the
// given terms, define-funs for shared subterms.
type Script struct {
	dropQ    bool // hypotheses: replace positively occurring bounded foralls by true (their instances are separate facts)
	dmemo    [2]map[int]*Term
	sb       strings.Builder
	declared map[string]bool
	defined  map[int]bool
	p        *printer
	bmemo    map[int]bool
}

func NewScript() *Script {
	// a single assertion or definition longer than 48 MB is not sent to a solver: the query counts as undecided
	return &Script{declared: map[string]bool{}, defined: map[int]bool{}, p: &printer{shared: map[int]bool{}, limit: 48 << 20}, bmemo: map[int]bool{}}
}

func (s *Script) Raw(line string) { s.sb.WriteString(line); s.sb.WriteByte('\n') }

// prepare declares symbols and hoists shared subterms of t.
func (s *Script) prepare(roots ...*Term) {
	order, refs := collect(roots)
	// declarations
	var names []string
	for _, t := range order {
		if t.op == "sym" && !s.declared["c:"+t.val] {
			s.declared["c:"+t.val] = true
			names = append(names, "(declare-const "+quoteSym(t.val)+" "+t.sort.Name+")")
		}
		if sig, ok := TS.funs[t.op]; ok && !s.declared["f:"+t.op] {
			s.declared["f:"+t.op] = true
			names = append(names, "(declare-fun "+quoteSym(t.op)+" "+sig+")")
		}
	}
	for _, n := range names {
		s.Raw(n)
	}
	for _, t := range order {
		if s.defined[t.id] || len(t.args) == 0 {
			continue
		}
		if refs[t.id] > 1 && !hasBoundMemo(t, s.bmemo) && t.op != "const" {
			var sb strings.Builder
			s.p.writeBody(&sb, t)
			s.Raw(fmt.Sprintf("(define-fun t%d () %s %s)", t.id, t.sort.Name, sb.String()))
			s.p.shared[t.id] = true
			s.defined[t.id] = true
		}
	}
}

func (s *Script) Assert(t *Term) {
	if s.dropQ {
		if s.dmemo[0] == nil {
			s.dmemo[0], s.dmemo[1] = map[int]*Term{}, map[int]*Term{}
		}
		t = dropQuant(t, true, &s.dmemo)
		if t == True {
			return
		}
	}
	s.prepare(t)
	var sb strings.Builder
	s.p.write(&sb, t)
	s.Raw("(assert " + sb.String() + ")")
}

// Pre transforms (see dropQ) and prepares a term now, so that it can be asserted later inside a push/pop scope
// without its definitions being lost at the pop.
func (s *Script) Pre(t *Term) *Term {
	if s.dropQ {
		if s.dmemo[0] == nil {
			s.dmemo[0], s.dmemo[1] = map[int]*Term{}, map[int]*Term{}
		}
		t = dropQuant(t, true, &s.dmemo)
	}
	s.prepare(t)
	return t
}

// AssertPre asserts a term returned by Pre.
func (s *Script) AssertPre(t *Term) {
	if t == True {
		return
	}
	var sb strings.Builder
	s.p.write(&sb, t)
	s.Raw("(assert " + sb.String() + ")")
}

func (s *Script) TermString(t *Term) string {
	s.prepare(t)
	var sb strings.Builder
	s.p.write(&sb, t)
	return sb.String()
}

func (s *Script) String() string {
	if s.p.hit || s.sb.Len() > 400<<20 {
		// a term too large to print: the solvers answer "unknown" at once
		return "(echo \"unknown\")\n"
	}
	return s.sb.String()
}

func sortedKeys[V any](m map[string]V) []string {
	var ks []string
	for k := range m {
		ks = append(ks, k)
	}
	sort.Strings(ks)
	return ks
}

// dropQuant weakens a hypothesis: bounded foralls (one Int variable, produced by the contract language) that occur
// positively are replaced by true. The executor has added their instances at the terms of interest as separate
// facts, so the query keeps what the deterministic instantiation found and loses only what e-matching would add
// (including its matching loops on bodies like a[k+1] == f(a[k])). `unsat` of the weakened query is sound.
func dropQuant(t *Term, pos bool, memo *[2]map[int]*Term) *Term {
	pi := 0
	if pos {
		pi = 1
	}
	if r, ok := memo[pi][t.id]; ok {
		return r
	}
	r := t
	switch t.op {
	case "and":
		as := make([]*Term, len(t.args))
		for i, a := range t.args {
			as[i] = dropQuant(a, pos, memo)
		}
		r = And(as...)
	case "or":
		as := make([]*Term, len(t.args))
		for i, a := range t.args {
			as[i] = dropQuant(a, pos, memo)
		}
		r = Or(as...)
	case "not":
		r = Not(dropQuant(t.args[0], !pos, memo))
	case "=>":
		r = Implies(dropQuant(t.args[0], !pos, memo), dropQuant(t.args[1], pos, memo))
	case "forall":
		if pos && t.val == "1" && t.args[0].sort == SInt {
			r = True
		}
	}
	memo[pi][t.id] = r
	return r
}
