package main

// Replay of counterexamples on the real code: the model of a failed obligation is turned into
// concrete Go arguments, a test is injected into the package with `go test -overlay` (nothing is
// written to the repository) and the real function is executed.

import (
	"context"
	"encoding/json"
	"fmt"
	"go/ast"
	"go/token"
	"go/types"
	"os"
	"os/exec"
	"path/filepath"
	"regexp/syntax"
	"strconv"
	"strings"
	"time"

	"golang.org/x/tools/go/ssa"
)

type ReplayResult struct {
	Reproduced bool     `json:"reproduced"`
	Mode       string   `json:"mode"` // model | search
	Inputs     []string `json:"inputs"`
	Output     string   `json:"output"`
	TestFile   string   `json:"test_source"`
	Cmd        string   `json:"cmd"`
}

func constantString(c *ssa.Const) string {
	if c.Value == nil {
		return ""
	}
	s, err := strconv.Unquote(c.Value.ExactString())
	if err != nil {
		return c.Value.ExactString()
	}
	return s
}

func patternOfInit(init ast.Expr) (string, bool) {
	if e, ok := init.(*ast.CallExpr); ok {
		if sel, ok := e.Fun.(*ast.SelectorExpr); ok && sel.Sel.Name == "MustCompile" && len(e.Args) == 1 {
			if lit, ok := e.Args[0].(*ast.BasicLit); ok && lit.Kind == token.STRING {
				pat, err := strconv.Unquote(lit.Value)
				if err == nil {
					return pat, true
				}
			}
		}
	}
	return "", false
}

// ---- model values ----

// smtInt parses "5" or "(- 5)".
func smtInt(s string) (string, bool) {
	s = strings.TrimSpace(s)
	if strings.HasPrefix(s, "(-") {
		inner := strings.TrimSpace(strings.TrimSuffix(strings.TrimPrefix(s, "(-"), ")"))
		if _, err := strconv.ParseInt(inner, 10, 64); err == nil {
			return "-" + inner, true
		}
		return "", false
	}
	if _, err := strconv.ParseInt(s, 10, 64); err == nil {
		return s, true
	}
	return "", false
}

// sexpr is a minimal s-expression tree.
type sexpr struct {
	atom string
	list []*sexpr
}

func parseSexpr(s string) *sexpr {
	pos := 0
	var parse func() *sexpr
	skip := func() {
		for pos < len(s) && (s[pos] == ' ' || s[pos] == '\n' || s[pos] == '\t' || s[pos] == '\r') {
			pos++
		}
	}
	parse = func() *sexpr {
		skip()
		if pos >= len(s) {
			return nil
		}
		if s[pos] == '(' {
			pos++
			n := &sexpr{list: []*sexpr{}}
			for {
				skip()
				if pos >= len(s) {
					return n
				}
				if s[pos] == ')' {
					pos++
					return n
				}
				c := parse()
				if c == nil {
					return n
				}
				n.list = append(n.list, c)
			}
		}
		start := pos
		if s[pos] == '|' {
			pos++
			for pos < len(s) && s[pos] != '|' {
				pos++
			}
			pos++
			return &sexpr{atom: s[start:pos]}
		}
		if s[pos] == '"' {
			pos++
			for pos < len(s) && s[pos] != '"' {
				pos++
			}
			pos++
			return &sexpr{atom: s[start:pos]}
		}
		for pos < len(s) && !strings.ContainsRune(" \n\t\r()", rune(s[pos])) {
			pos++
		}
		return &sexpr{atom: s[start:pos]}
	}
	return parse()
}

func (e *sexpr) String() string {
	if e == nil {
		return ""
	}
	if e.list == nil {
		return e.atom
	}
	var ps []string
	for _, c := range e.list {
		ps = append(ps, c.String())
	}
	return "(" + strings.Join(ps, " ") + ")"
}

func (e *sexpr) intVal() (int64, bool) {
	if e == nil {
		return 0, false
	}
	if e.list == nil {
		v, err := strconv.ParseInt(e.atom, 10, 64)
		return v, err == nil
	}
	if len(e.list) == 2 && e.list[0].atom == "-" {
		v, ok := e.list[1].intVal()
		return -v, ok
	}
	return 0, false
}

// expandLets substitutes let-bound names (z3 prints models with let).
func expandLets(e *sexpr, env map[string]*sexpr) *sexpr {
	if e == nil {
		return nil
	}
	if e.list == nil {
		if v, ok := env[e.atom]; ok {
			return v
		}
		return e
	}
	if len(e.list) == 3 && e.list[0].atom == "let" {
		ne := map[string]*sexpr{}
		for k, v := range env {
			ne[k] = v
		}
		for _, b := range e.list[1].list {
			if len(b.list) == 2 {
				ne[b.list[0].atom] = expandLets(b.list[1], ne)
			}
		}
		return expandLets(e.list[2], ne)
	}
	out := &sexpr{list: []*sexpr{}}
	for _, c := range e.list {
		out.list = append(out.list, expandLets(c, env))
	}
	return out
}

// arrayModel evaluates an (Array Int Int) model term at index i.
func arrayAt(a *sexpr, i int64) (int64, bool) {
	for a != nil && a.list != nil {
		if len(a.list) == 4 && a.list[0].atom == "store" {
			k, ok := a.list[2].intVal()
			if ok && k == i {
				return a.list[3].intVal()
			}
			a = a.list[1]
			continue
		}
		if len(a.list) == 2 && a.list[0].list != nil && len(a.list[0].list) == 3 && a.list[0].list[0].atom == "as" {
			return a.list[1].intVal()
		}
		break
	}
	return 0, false
}

// strFromModel decodes (mkStr arr off len) into a Go string (bounded length).
func strFromModel(e *sexpr) (string, bool) {
	if e == nil || e.list == nil || len(e.list) != 4 || e.list[0].atom != "mkStr" {
		return "", false
	}
	off, ok1 := e.list[2].intVal()
	ln, ok2 := e.list[3].intVal()
	if !ok1 || !ok2 || ln < 0 || ln > 4096 {
		return "", false
	}
	buf := make([]byte, ln)
	for i := int64(0); i < ln; i++ {
		v, ok := arrayAt(e.list[1], off+i)
		if !ok {
			return "", false
		}
		buf[i] = byte(v)
	}
	return string(buf), true
}

// goLiteral renders a model value as a Go expression of type t (only self-contained types).
func goLiteral(t types.Type, e *sexpr, qual types.Qualifier) (string, bool) {
	switch u := t.Underlying().(type) {
	case *types.Basic:
		switch {
		case u.Info()&types.IsBoolean != 0:
			if e.atom == "true" || e.atom == "false" {
				return e.atom, true
			}
		case u.Info()&types.IsInteger != 0:
			if v, ok := e.intVal(); ok {
				if _, named := t.(*types.Named); named {
					return fmt.Sprintf("%s(%d)", types.TypeString(t, qual), v), true
				}
				return strconv.FormatInt(v, 10), true
			}
		case u.Info()&types.IsString != 0:
			if s, ok := strFromModel(e); ok {
				return strconv.Quote(s), true
			}
		}
	case *types.Struct:
		if e.list == nil || len(e.list) != u.NumFields()+1 {
			if u.NumFields() == 0 {
				return types.TypeString(t, qual) + "{}", true
			}
			return "", false
		}
		var fs []string
		for i := 0; i < u.NumFields(); i++ {
			l, ok := goLiteral(u.Field(i).Type(), e.list[i+1], qual)
			if !ok {
				return "", false
			}
			fs = append(fs, u.Field(i).Name()+": "+l)
		}
		return types.TypeString(t, qual) + "{" + strings.Join(fs, ", ") + "}", true
	}
	return "", false
}

func defaultGo() string {
	for _, d := range filepath.SplitList(os.Getenv("PATH")) {
		if strings.Contains(d, "veriftools") {
			continue
		}
		p := filepath.Join(d, "go")
		if st, err := os.Stat(p); err == nil && !st.IsDir() {
			return p
		}
	}
	return "/usr/bin/go"
}

func panicKind(kind string) bool {
	k := kind
	if i := strings.Index(k, "("); i >= 0 {
		k = k[:i]
	}
	switch k {
	case "panic", "index", "slice", "nil", "div", "typeassert", "makeslice", "repeat", "nilmap", "pre", "no-nesting":
		return true
	}
	return false
}

// tryReplay attempts to reproduce a failed obligation on the real function.
func tryReplay(p *Program, res *checkResult, o *Obligation) *ReplayResult {
	var job *Job
	for _, j := range res.jobs {
		if j.Name == o.Job {
			job = j
		}
	}
	if job == nil || job.fn == nil {
		return nil
	}
	fn := job.fn
	if fn.Parent() != nil || fn.Synthetic != "" || fn.Pkg == nil {
		return nil
	}
	pkg := fn.Pkg.Pkg
	qual := func(q *types.Package) string {
		if q == pkg {
			return ""
		}
		return q.Name()
	}
	// 1. arguments from the model
	var argSets [][]string
	mode := "model"
	if o.Model != nil {
		var args []string
		ok := true
		for _, in := range job.Inputs {
			if in.Val == nil || in.Val.T == nil || strings.HasPrefix(in.Name, "free.") {
				ok = false
				break
			}
			raw, have := lookupModel(o.Model, in.Val.T)
			if !have {
				ok = false
				break
			}
			lit, good := goLiteral(in.Val.Typ, expandLets(parseSexpr(raw), nil), qual)
			if !good {
				ok = false
				break
			}
			args = append(args, lit)
		}
		if ok {
			argSets = append(argSets, args)
		}
	}
	// 2. fallback: a small search over strings generated from the patterns the function uses
	if len(fn.Params) == 1 && fn.Signature.Recv() == nil {
		if b, ok := fn.Params[0].Type().Underlying().(*types.Basic); ok && b.Info()&types.IsString != 0 {
			for _, ri := range job.regexUsed {
				for _, s := range sampleStrings(ri.Pattern, 400) {
					argSets = append(argSets, []string{strconv.Quote(s)})
				}
			}
			if len(argSets) > 1 {
				mode = "model+search"
			}
		}
	}
	if len(argSets) == 0 {
		return nil
	}
	if !panicKind(o.Kind) {
		// postconditions are not re-evaluated at run time; only crashes are replayed
		return nil
	}
	return runReplay(p, fn, argSets, mode, o.Pos)
}

func lookupModel(m map[string]string, t *Term) (string, bool) {
	for _, k := range []string{t.String(), quoteSym(t.val)} {
		if v, ok := m[k]; ok {
			return v, true
		}
	}
	return "", false
}

func runReplay(p *Program, fn *ssa.Function, argSets [][]string, mode string, pos string) *ReplayResult {
	pkg := fn.Pkg.Pkg
	rel := strings.TrimPrefix(pkg.Path(), modulePath)
	dir := filepath.Join(p.repo, rel)
	call := fn.Name()
	var sb strings.Builder
	fmt.Fprintf(&sb, "package %s\n\nimport (\n\t\"fmt\"\n\t\"regexp\"\n\t\"runtime/debug\"\n\t\"strings\"\n\t\"testing\"\n)\n\n", pkg.Name())
	fmt.Fprintf(&sb, "var govcLoc = regexp.MustCompile(`[A-Za-z0-9_./-]+\\.go:[0-9]+`)\n\n")
	fmt.Fprintf(&sb, "func govcTry(i int, f func()) {\n\tdefer func() {\n\t\tif r := recover(); r != nil {\n\t\t\tfmt.Printf(\"GOVC-REPLAY case %%d: PANIC %%v AT %%s\\n\", i, r, strings.Join(govcLoc.FindAllString(string(debug.Stack()), -1), \" \"))\n\t\t}\n\t}()\n\tf()\n}\n\n")
	fmt.Fprintf(&sb, "func TestGovcReplay(t *testing.T) {\n")
	for i, args := range argSets {
		callExpr := ""
		if fn.Signature.Recv() != nil {
			callExpr = fmt.Sprintf("(%s).%s(%s)", args[0], call, strings.Join(args[1:], ", "))
		} else {
			callExpr = fmt.Sprintf("%s(%s)", call, strings.Join(args, ", "))
		}
		fmt.Fprintf(&sb, "\tgovcTry(%d, func() { %s })\n", i, callExpr)
	}
	fmt.Fprintf(&sb, "\tfmt.Println(\"GOVC-REPLAY done\")\n}\n")
	tmp, err := os.MkdirTemp("", "govc-replay")
	if err != nil {
		return nil
	}
	defer os.RemoveAll(tmp)
	testSrc := filepath.Join(tmp, "zz_govc_replay_test.go")
	os.WriteFile(testSrc, []byte(sb.String()), 0o644)
	ov := map[string]map[string]string{"Replace": {filepath.Join(dir, "zz_govc_replay_test.go"): testSrc}}
	ovData, _ := json.Marshal(ov)
	ovPath := filepath.Join(tmp, "overlay.json")
	os.WriteFile(ovPath, ovData, 0o644)
	ctx, cancel := context.WithTimeout(context.Background(), 120*time.Second)
	defer cancel()
	cmd := exec.CommandContext(ctx, defaultGo(), "test", "-overlay", ovPath, "-vet=off", "-timeout", "60s", "-count=1", "-v", "-run", "^TestGovcReplay$", "./"+strings.TrimPrefix(rel, "/")+"/")
	cmd.Dir = p.repo
	var env []string
	for _, e := range os.Environ() {
		if strings.HasPrefix(e, "GOSUMDB=") || strings.HasPrefix(e, "GOTOOLCHAIN=") || strings.HasPrefix(e, "GOFLAGS=") || strings.HasPrefix(e, "GOPROXY=") {
			continue
		}
		env = append(env, e)
	}
	cmd.Env = append(env, "GOFLAGS=-mod=mod", "GOPROXY=off", "GOTOOLCHAIN=auto")
	out, _ := cmd.CombinedOutput()
	rr := &ReplayResult{Mode: mode, Output: truncate(string(out), 3000), Cmd: strings.Join(cmd.Args, " "), TestFile: truncate(sb.String(), 6000)}
	// a panic counts as a reproduction only if the obligation's source line is on the stack
	want := ""
	if pos != "" {
		parts := strings.Split(pos, " > ")
		want = filepath.Base(parts[len(parts)-1])
	}
	lines := strings.Split(string(out), "\n")
	hit := map[int]bool{}
	for _, l := range lines {
		var idx int
		if n, _ := fmt.Sscanf(l, "GOVC-REPLAY case %d: PANIC", &idx); n == 1 {
			if want == "" || strings.Contains(l, "/"+want+" ") || strings.HasSuffix(l, "/"+want) || strings.Contains(l, " "+want+" ") {
				hit[idx] = true
			}
		}
	}
	for i, args := range argSets {
		if hit[i] {
			rr.Reproduced = true
			rr.Inputs = append(rr.Inputs, strings.Join(args, ", "))
			if len(rr.Inputs) >= 5 {
				break
			}
		}
	}
	return rr
}

// sampleStrings enumerates strings in (and near) the language of a pattern, with extreme numerals.
func sampleStrings(pat string, limit int) []string {
	re, err := syntax.Parse(pat, syntax.Perl)
	if err != nil {
		return nil
	}
	var gen func(r *syntax.Regexp) []string
	cap2 := func(xs []string) []string {
		if len(xs) > 40 {
			return xs[:40]
		}
		return xs
	}
	gen = func(r *syntax.Regexp) []string {
		switch r.Op {
		case syntax.OpLiteral:
			return []string{string(r.Rune)}
		case syntax.OpCharClass:
			if isDigitClass(r) {
				return []string{"0", "9"}
			}
			var out []string
			for i := 0; i+1 < len(r.Rune) && len(out) < 3; i += 2 {
				out = append(out, string(r.Rune[i]))
			}
			return out
		case syntax.OpAnyChar, syntax.OpAnyCharNotNL:
			return []string{"x"}
		case syntax.OpBeginText, syntax.OpEndText, syntax.OpBeginLine, syntax.OpEndLine, syntax.OpEmptyMatch:
			return []string{""}
		case syntax.OpCapture:
			return gen(r.Sub[0])
		case syntax.OpQuest:
			return cap2(append([]string{""}, gen(r.Sub[0])...))
		case syntax.OpStar, syntax.OpPlus, syntax.OpRepeat:
			base := gen(r.Sub[0])
			var out []string
			if r.Op == syntax.OpStar || (r.Op == syntax.OpRepeat && r.Min == 0) {
				out = append(out, "")
			}
			if isDigitClass(r.Sub[0]) {
				if r.Op == syntax.OpRepeat && r.Max >= 0 {
					out = append(out, strings.Repeat("0", r.Min), strings.Repeat("9", r.Max), "1"+strings.Repeat("0", maxInt(r.Min-1, 0)))
				} else {
					out = append(out, "0", "1", "59", "60", "99", "153722867280912931", "999999999999999999", "9223372036854775807", "9223372036854775808", "99999999999999999999")
				}
				return out
			}
			for _, b := range base {
				n := 1
				if r.Op == syntax.OpRepeat && r.Min > 1 {
					n = r.Min
				}
				out = append(out, strings.Repeat(b, n), strings.Repeat(b, n+1))
			}
			return cap2(out)
		case syntax.OpAlternate:
			var out []string
			for _, s := range r.Sub {
				out = append(out, gen(s)...)
			}
			return cap2(out)
		case syntax.OpConcat:
			out := []string{""}
			for _, s := range r.Sub {
				part := gen(s)
				var nx []string
				for _, a := range out {
					for _, b := range part {
						nx = append(nx, a+b)
						if len(nx) >= limit {
							break
						}
					}
					if len(nx) >= limit {
						break
					}
				}
				out = nx
			}
			return out
		}
		return []string{""}
	}
	out := gen(re)
	if len(out) > limit {
		out = out[:limit]
	}
	return out
}

func maxInt(a, b int) int {
	if a > b {
		return a
	}
	return b
}

func cmdReplay(args []string) {
	if len(args) < 1 {
		fmt.Println("usage: govc replay <replay.json>")
		os.Exit(2)
	}
	data, err := os.ReadFile(args[0])
	if err != nil {
		fmt.Println(err)
		os.Exit(2)
	}
	var m map[string]any
	json.Unmarshal(data, &m)
	fmt.Printf("obligation: %v\nstatus: %v\nclause: %v\nposition: %v\n", m["obligation"], m["status"], m["clause"], m["position"])
	if rp, ok := m["replay"].(map[string]any); ok {
		src, _ := rp["test_source"].(string)
		cmdline, _ := rp["cmd"].(string)
		fmt.Println("replay command:", cmdline)
		fmt.Println("replay test:\n" + src)
		fmt.Println("recorded output:\n", rp["output"])
	} else {
		fmt.Println("no executable replay recorded; solver output:\n", m["solver_output"])
	}
}
