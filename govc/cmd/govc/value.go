package main

// Symbolic values and pointers.

import (
	"fmt"
	"go/constant"
	"go/types"
	"math/big"

	"golang.org/x/tools/go/ssa"
)

type Val struct {
	T     *Term
	Typ   types.Type
	Tuple []*Val
	Clo   *Closure // statically known function value(s)
	Ptr   *Pointer // structured pointer (not representable as a plain reference)
	Iter  *Iter
	Regex *RegexInfo // for *regexp.Regexp values with a known literal
}

type Closure struct {
	Fn       *ssa.Function
	Bindings []*Val
	// alternatives (from phi of closures): cond -> closure; Fn nil when alts used
	Alts []CloAlt
}

type CloAlt struct {
	Cond *Term
	Clo  *Closure // nil closure means "nil func"
}

type pathStep struct {
	field int        // >=0: struct field index
	index *Term      // != nil: array index
	typ   types.Type // type of the aggregate this step applies to
}

const (
	pkObj = iota
	pkCell
	pkElem
)

type Pointer struct {
	kind  int
	ref   *Term      // pkObj, pkCell
	objT  types.Type // pkObj: struct type ; pkCell: cell value type
	cell  string     // pkCell: heap map name
	sl    *Term      // pkElem: slice value
	idx   *Term
	elemT types.Type
	path  []pathStep
}

type Iter struct {
	str    *Term // range over string
	strTyp types.Type
	cell   string // heap map name of the position cell
	ref    *Term
	isMap  bool
	mapVal *Val
	id     string
}

func (p *Pointer) baseType() types.Type {
	switch p.kind {
	case pkObj, pkCell:
		return p.objT
	default:
		return p.elemT
	}
}

func (p *Pointer) targetType() types.Type {
	t := p.baseType()
	for _, s := range p.path {
		if s.index != nil {
			t = t.Underlying().(*types.Array).Elem()
		} else {
			t = t.Underlying().(*types.Struct).Field(s.field).Type()
		}
	}
	return t
}

func (p *Pointer) extend(s pathStep) *Pointer {
	q := *p
	q.path = append(append([]pathStep{}, p.path...), s)
	return &q
}

// getPath projects a value of type t along the path.
func getPath(v *Term, t types.Type, path []pathStep) *Term {
	for _, s := range path {
		if s.index != nil {
			v = Select(v, s.index)
			t = t.Underlying().(*types.Array).Elem()
		} else {
			v = TE.Field(t, s.field, v)
			t = t.Underlying().(*types.Struct).Field(s.field).Type()
		}
	}
	return v
}

// setPath functionally updates a value of type t along the path.
func setPath(v *Term, t types.Type, path []pathStep, nv *Term) *Term {
	if len(path) == 0 {
		return nv
	}
	s := path[0]
	if s.index != nil {
		et := t.Underlying().(*types.Array).Elem()
		inner := setPath(Select(v, s.index), et, path[1:], nv)
		return Store(v, s.index, inner)
	}
	ft := t.Underlying().(*types.Struct).Field(s.field).Type()
	inner := setPath(TE.Field(t, s.field, v), ft, path[1:], nv)
	return TE.UpdateField(t, s.field, v, inner)
}

// heapValType records the Go type of the values held by a heap map (for typing facts about reads that
// appear in instantiated quantified facts).
var heapValType = map[string]types.Type{}

func fieldMapName(structT types.Type, i int) string {
	st := structT.Underlying().(*types.Struct)
	n := "f:" + typeKey(structT) + "." + st.Field(i).Name()
	if _, ok := heapValType[n]; !ok {
		heapValType[n] = st.Field(i).Type()
	}
	return n
}

func arrMapName(elem types.Type) string {
	n := "arr:" + TE.SortOf(elem).Name
	if _, ok := heapValType[n]; !ok {
		heapValType[n] = elem
	}
	return n
}

// ---- constants ----

func constVal(c *ssa.Const) *Val {
	t := c.Type()
	if c.Value == nil {
		return &Val{T: TE.zeroValue(t), Typ: t}
	}
	switch c.Value.Kind() {
	case constant.Bool:
		return &Val{T: BoolLit(constant.BoolVal(c.Value)), Typ: t}
	case constant.String:
		return &Val{T: StrLit(constant.StringVal(c.Value)), Typ: t}
	case constant.Int:
		if b, ok := t.Underlying().(*types.Basic); ok && b.Info()&types.IsFloat != 0 {
			f, _ := constant.Float64Val(c.Value)
			return &Val{T: realLit(f), Typ: t}
		}
		if i, ok := constant.Int64Val(c.Value); ok {
			return &Val{T: IntLit(i), Typ: t}
		}
		bi, _ := new(big.Int).SetString(c.Value.ExactString(), 10)
		return &Val{T: IntLitStr(bi.String()), Typ: t}
	case constant.Float:
		f, _ := constant.Float64Val(c.Value)
		return &Val{T: realLit(f), Typ: t}
	}
	panic(fmt.Sprintf("unsupported constant %v", c))
}

// realLitVal remembers the float64 behind a real literal (constant folding of math functions on literals)
var realLitVal = map[int]float64{}

func realLit(f float64) *Term {
	t := realLit0(f)
	realLitVal[t.id] = f
	return t
}

func realLit0(f float64) *Term {
	r := new(big.Rat)
	r.SetFloat64(f)
	s := fmt.Sprintf("(/ %s.0 %s.0)", r.Num().String(), r.Denom().String())
	if r.Sign() < 0 {
		n := new(big.Int).Neg(r.Num())
		s = fmt.Sprintf("(- (/ %s.0 %s.0))", n.String(), r.Denom().String())
	}
	return TS.mk("const", s, mkSort("Real"))
}

func intRange(t types.Type) (lo, hi string, ok bool) {
	b, isB := t.Underlying().(*types.Basic)
	if !isB || b.Info()&types.IsInteger == 0 {
		return "", "", false
	}
	switch b.Kind() {
	case types.Int, types.Int64, types.UntypedInt:
		return "-9223372036854775808", "9223372036854775807", true
	case types.Int32, types.UntypedRune:
		return "-2147483648", "2147483647", true
	case types.Int16:
		return "-32768", "32767", true
	case types.Int8:
		return "-128", "127", true
	case types.Uint, types.Uint64, types.Uintptr:
		return "0", "18446744073709551615", true
	case types.Uint32:
		return "0", "4294967295", true
	case types.Uint16:
		return "0", "65535", true
	case types.Uint8:
		return "0", "255", true
	}
	return "", "", false
}
