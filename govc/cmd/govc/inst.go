package main

// Deterministic quantifier handling: goals are skolemised, and every bounded-forall hypothesis created by
// the contract language is instantiated at the terms of interest (skolem constants and the indices of ground
// element reads). The quantified facts are still passed to the solver; the instances make most proofs
// about slices quantifier-free and independent of trigger heuristics.

import (
	"fmt"
	"os"
	"strconv"
)

type qfact struct {
	bv    *Term
	body  *Term // lo <= bv < hi => B(bv)
	guard *Term
	sorts map[string]bool // element sorts of the arrays the bound variable indexes ("*": none found, relevant to all)
	n     int
}

const maxPerFact = 48

// arrKey identifies the backing object of an element array term: the reference at which the element heap is read
// (the same for all heap versions), or the term itself for arrays that are not heap objects (strings).
func arrKey(arr *Term) string {
	t := arr
	for i := 0; i < 64; i++ {
		switch t.op {
		case "select":
			if t.args[0].sort.isArray() {
				_, v := t.args[0].sort.arrayParts()
				if v.isArray() {
					return "ref:" + strconv.Itoa(t.args[1].id)
				}
			}
			return "arr:" + strconv.Itoa(t.id)
		case "ite":
			t = t.args[1]
			continue
		case "store":
			t = t.args[0]
			continue
		}
		break
	}
	return "arr:" + strconv.Itoa(t.id)
}

// indexSorts finds the element sorts of the arrays that are indexed by an expression containing bv.
func indexSorts(body, bv *Term) map[string]bool {
	out := map[string]bool{}
	memo := map[int]bool{}
	var mentions func(t *Term) bool
	mentions = func(t *Term) bool {
		if v, ok := memo[t.id]; ok {
			return v
		}
		r := t == bv
		for _, a := range t.args {
			if mentions(a) {
				r = true
			}
		}
		memo[t.id] = r
		return r
	}
	seen := map[int]bool{}
	var walk func(t *Term)
	walk = func(t *Term) {
		if seen[t.id] {
			return
		}
		seen[t.id] = true
		if len(t.op) > 3 && t.op[:3] == "at." && len(t.args) == 3 && mentions(t.args[2]) {
			out[arrKey(t.args[0])] = true
		}
		if t.op == "select" && mentions(t.args[1]) && t.args[0].sort.isArray() {
			out[arrKey(t.args[0])] = true
		}
		for _, a := range t.args {
			walk(a)
		}
	}
	walk(body)
	if len(out) == 0 {
		out["*"] = true
	}
	return out
}

const maxInstances = 1500

// isBoundedForall recognises Forall([bv], body) created by the contract language (single Int variable).
func isBoundedForall(t *Term) (*Term, *Term, bool) {
	if t.op != "forall" {
		return nil, nil, false
	}
	n, _ := strconv.Atoi(splitVal(t.val))
	if n != 1 || t.args[0].sort != SInt {
		return nil, nil, false
	}
	return t.args[0], t.args[1], true
}

func splitVal(v string) string {
	for i := 0; i < len(v); i++ {
		if v[i] == '|' {
			return v[:i]
		}
	}
	return v
}

// registerFacts walks an assumed formula and registers the bounded foralls that occur positively.
func (x *Exec) registerFacts(st *State, t *Term, guard *Term, depth int) {
	if depth > 6 {
		return
	}
	switch t.op {
	case "and":
		for _, a := range t.args {
			x.registerFacts(st, a, guard, depth+1)
		}
	case "=>":
		x.registerFacts(st, t.args[1], And(guard, t.args[0]), depth+1)
	case "forall":
		bv, body, ok := isBoundedForall(t)
		if !ok || hasFreeBound(t) {
			return
		}
		key := [2]int{t.id, guard.id}
		if x.qseen[key] {
			return
		}
		x.qseen[key] = true
		f := &qfact{bv: bv, body: body, guard: guard, sorts: indexSorts(body, bv)}
		x.qfacts = append(x.qfacts, f)
		for _, e := range x.interest {
			x.instantiate(st, f, e, depth)
		}
	case "exists":
		// a positive existential hypothesis: name a witness
		n, _ := strconv.Atoi(splitVal(t.val))
		if n != 1 || hasFreeBound(t) || depth > 2 {
			return
		}
		// one witness per existential formula
		key := [2]int{t.id, -41}
		if x.qseen[key] {
			return
		}
		x.qseen[key] = true
		k := Fresh("witness", t.args[0].sort)
		inst := substTerm(t.args[1], map[int]*Term{t.args[0].id: k})
		x.ctx.facts = append(x.ctx.facts, Implies(t, inst))
		x.linkAtTerms(inst)
		// the witness is relevant to the arrays the existential talks about
		for s := range indexSorts(t.args[1], t.args[0]) {
			x.addInterest(st, k, s)
		}
	}
}

func (x *Exec) instantiate(st *State, f *qfact, e *Term, depth int) {
	if x.ninst >= maxInstances || e.sort != f.bv.sort || f.n >= maxPerFact {
		return
	}
	// relevance: the term must have been used as an index into an array of a sort the fact talks about
	if !f.sorts["*"] {
		rel := false
		for s := range x.interestSorts[e.id] {
			if f.sorts[s] || s == "*" {
				rel = true
			}
		}
		if !rel {
			return
		}
	}
	key := [2]int{f.body.id*7919 + f.guard.id, e.id}
	if x.qseen[key] {
		return
	}
	x.qseen[key] = true
	x.ninst++
	f.n++
	if os.Getenv("GOVC_DEBUG") != "" {
		fmt.Fprintf(os.Stderr, "DEBUG instantiate fact#%d at %s\n", f.body.id, truncate(e.String(), 60))
	}
	inst := substTerm(f.body, map[int]*Term{f.bv.id: e})
	x.ctx.facts = append(x.ctx.facts, Implies(f.guard, inst))
	x.linkAtTerms(inst)
	x.unfoldSumsIn(st, inst)
	x.registerFacts(st, inst, f.guard, depth+1)
}

// unfoldSumsIn unfolds every ground sum application inside t once.
func (x *Exec) unfoldSumsIn(st *State, t *Term) {
	seen := map[int]bool{}
	var walk func(t *Term)
	walk = func(t *Term) {
		if seen[t.id] || t.op == "forall" || t.op == "exists" {
			return
		}
		seen[t.id] = true
		if len(t.op) > 4 && t.op[:4] == "sum#" {
			x.unfoldSum(st, t)
		}
		for _, a := range t.args {
			walk(a)
		}
	}
	walk(t)
}

// linkAtTerms adds, for every ground application at.S(a, o, k) inside t, its defining equation with select.
func (x *Exec) linkAtTerms(t *Term) {
	seen := map[int]bool{}
	var walk func(t *Term, under bool)
	walk = func(t *Term, under bool) {
		if seen[t.id] {
			return
		}
		seen[t.id] = true
		if t.op == "forall" || t.op == "exists" {
			return
		}
		if len(t.op) > 3 && t.op[:3] == "at." && len(t.args) == 3 && !hasFreeBound(t) {
			key := [2]int{t.id, -31}
			if !x.qseen[key] {
				x.qseen[key] = true
				x.ctx.facts = append(x.ctx.facts, Eq(t, Select(t.args[0], Add(t.args[1], t.args[2]))))
			}
		}
		for _, a := range t.args {
			walk(a, under)
		}
	}
	walk(t, false)
}

// addInterest records an index term (with the element sort of the array it indexes; "*" for skolem
// constants) and instantiates the relevant known facts at it.
func (x *Exec) addInterest(st *State, e *Term, sort string) {
	if e == nil || hasFreeBound(e) {
		return
	}
	if x.interestSeen == nil {
		x.interestSeen = map[int]bool{}
		x.interestSorts = map[int]map[string]bool{}
	}
	if x.interestSorts[e.id] == nil {
		x.interestSorts[e.id] = map[string]bool{}
	}
	if x.interestSorts[e.id][sort] {
		return
	}
	x.interestSorts[e.id][sort] = true
	if !x.interestSeen[e.id] {
		x.interestSeen[e.id] = true
		x.interest = append(x.interest, e)
	}
	for _, f := range x.qfacts {
		x.instantiate(st, f, e, 0)
	}
}

// skolemize replaces positively occurring bounded foralls of a goal by fresh constants.
func (x *Exec) skolemize(st *State, g *Term, depth int) *Term {
	if depth > 6 {
		return g
	}
	switch g.op {
	case "and":
		var as []*Term
		for _, a := range g.args {
			as = append(as, x.skolemize(st, a, depth+1))
		}
		return And(as...)
	case "=>":
		// hypotheses of the goal are available as facts for instantiation
		x.registerFacts(st, g.args[0], st.pc, depth+1)
		return Implies(g.args[0], x.skolemize(st, g.args[1], depth+1))
	case "forall":
		bv, body, ok := isBoundedForall(g)
		if !ok || hasFreeBound(g) {
			return g
		}
		k := Fresh("sk."+bv.val, bv.sort)
		inst := substTerm(body, map[int]*Term{bv.id: k})
		x.addInterest(st, k, "*")
		return x.skolemize(st, inst, depth+1)
	}
	return g
}
