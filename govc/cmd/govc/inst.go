package main

// Deterministic quantifier handling: goals are skolemised, and every bounded-forall hypothesis created by
// the contract language is instantiated at the terms of interest (skolem constants and the indices of ground
// element reads). The quantified facts are still passed to the solver; the instances make most proofs
// about slices quantifier-free and independent of trigger heuristics.

import (
	"fmt"
	"os"
	"strconv"
)

type qfact struct {
	bv    *Term
	body  *Term // lo <= bv < hi => B(bv)
	guard *Term
}

const maxInstances = 1500

// isBoundedForall recognises Forall([bv], body) created by the contract language (single Int variable).
func isBoundedForall(t *Term) (*Term, *Term, bool) {
	if t.op != "forall" {
		return nil, nil, false
	}
	n, _ := strconv.Atoi(splitVal(t.val))
	if n != 1 || t.args[0].sort != SInt {
		return nil, nil, false
	}
	return t.args[0], t.args[1], true
}

func splitVal(v string) string {
	for i := 0; i < len(v); i++ {
		if v[i] == '|' {
			return v[:i]
		}
	}
	return v
}

// registerFacts walks an assumed formula and registers the bounded foralls that occur positively.
func (x *Exec) registerFacts(st *State, t *Term, guard *Term, depth int) {
	if depth > 6 {
		return
	}
	switch t.op {
	case "and":
		for _, a := range t.args {
			x.registerFacts(st, a, guard, depth+1)
		}
	case "=>":
		x.registerFacts(st, t.args[1], And(guard, t.args[0]), depth+1)
	case "forall":
		bv, body, ok := isBoundedForall(t)
		if !ok || hasFreeBound(t) {
			return
		}
		key := [2]int{t.id, guard.id}
		if x.qseen[key] {
			return
		}
		x.qseen[key] = true
		f := &qfact{bv: bv, body: body, guard: guard}
		x.qfacts = append(x.qfacts, f)
		for _, e := range x.interest {
			x.instantiate(st, f, e, depth)
		}
	case "exists":
		// a positive existential hypothesis: name a witness
		n, _ := strconv.Atoi(splitVal(t.val))
		if n != 1 || hasFreeBound(t) {
			return
		}
		key := [2]int{t.id, guard.id}
		if x.qseen[key] {
			return
		}
		x.qseen[key] = true
		k := Fresh("witness", t.args[0].sort)
		inst := substTerm(t.args[1], map[int]*Term{t.args[0].id: k})
		x.ctx.facts = append(x.ctx.facts, Implies(And(guard, t), inst))
		x.addInterest(st, k)
		x.registerFacts(st, inst, And(guard, t), depth+1)
	}
}

func (x *Exec) instantiate(st *State, f *qfact, e *Term, depth int) {
	if x.ninst >= maxInstances || e.sort != f.bv.sort {
		return
	}
	key := [2]int{f.body.id*7919 + f.guard.id, e.id}
	if x.qseen[key] {
		return
	}
	x.qseen[key] = true
	x.ninst++
	if os.Getenv("GOVC_DEBUG") != "" {
		fmt.Fprintf(os.Stderr, "DEBUG instantiate fact#%d at %s\n", f.body.id, truncate(e.String(), 60))
	}
	inst := substTerm(f.body, map[int]*Term{f.bv.id: e})
	x.ctx.facts = append(x.ctx.facts, Implies(f.guard, inst))
	x.linkAtTerms(inst)
	x.unfoldSumsIn(st, inst)
	x.registerFacts(st, inst, f.guard, depth+1)
}

// unfoldSumsIn unfolds every ground sum application inside t once.
func (x *Exec) unfoldSumsIn(st *State, t *Term) {
	seen := map[int]bool{}
	var walk func(t *Term)
	walk = func(t *Term) {
		if seen[t.id] || t.op == "forall" || t.op == "exists" {
			return
		}
		seen[t.id] = true
		if len(t.op) > 4 && t.op[:4] == "sum#" {
			x.unfoldSum(st, t)
		}
		for _, a := range t.args {
			walk(a)
		}
	}
	walk(t)
}

// linkAtTerms adds, for every ground application at.S(a, o, k) inside t, its defining equation with select.
func (x *Exec) linkAtTerms(t *Term) {
	seen := map[int]bool{}
	var walk func(t *Term, under bool)
	walk = func(t *Term, under bool) {
		if seen[t.id] {
			return
		}
		seen[t.id] = true
		if t.op == "forall" || t.op == "exists" {
			return
		}
		if len(t.op) > 3 && t.op[:3] == "at." && len(t.args) == 3 && !hasFreeBound(t) {
			key := [2]int{t.id, -31}
			if !x.qseen[key] {
				x.qseen[key] = true
				x.ctx.facts = append(x.ctx.facts, Eq(t, Select(t.args[0], Add(t.args[1], t.args[2]))))
			}
		}
		for _, a := range t.args {
			walk(a, under)
		}
	}
	walk(t, false)
}

// addInterest records an index term and instantiates the known facts at it.
func (x *Exec) addInterest(st *State, e *Term) {
	if e == nil || hasFreeBound(e) || x.interestSeen[e.id] {
		return
	}
	if x.interestSeen == nil {
		x.interestSeen = map[int]bool{}
	}
	x.interestSeen[e.id] = true
	x.interest = append(x.interest, e)
	for _, f := range x.qfacts {
		x.instantiate(st, f, e, 0)
	}
}

// skolemize replaces positively occurring bounded foralls of a goal by fresh constants.
func (x *Exec) skolemize(st *State, g *Term, depth int) *Term {
	if depth > 6 {
		return g
	}
	switch g.op {
	case "and":
		var as []*Term
		for _, a := range g.args {
			as = append(as, x.skolemize(st, a, depth+1))
		}
		return And(as...)
	case "=>":
		// hypotheses of the goal are available as facts for instantiation
		x.registerFacts(st, g.args[0], st.pc, depth+1)
		return Implies(g.args[0], x.skolemize(st, g.args[1], depth+1))
	case "forall":
		bv, body, ok := isBoundedForall(g)
		if !ok || hasFreeBound(g) {
			return g
		}
		k := Fresh("sk."+bv.val, bv.sort)
		inst := substTerm(body, map[int]*Term{bv.id: k})
		x.addInterest(st, k)
		return x.skolemize(st, inst, depth+1)
	}
	return g
}
