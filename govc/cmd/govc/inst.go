package main

// Deterministic quantifier handling: goals are skolemised, and every bounded-forall hypothesis created by
// the contract language is instantiated at the terms of interest (skolem constants and the indices of ground
// element reads). The quantified facts are still passed to the solver; the instances make most proofs
// about slices quantifier-free and independent of trigger heuristics.

import (
	"sort"
	"go/types"
	"fmt"
	"os"
	"strconv"
	"strings"
)

// a read at.S(arr, off, bv+shift) inside a quantified fact
type qread struct {
	arrID int
	sort  *Sort
	keys  []string
	off   *Term
	shift *Term
}

// an element read made by the program or a goal: backing object keys, slice offset and index
type absRead struct {
	sort *Sort
	keys []string
	off  *Term
	idx  *Term
}

type qfact struct {
	relational bool // the body reads two different array terms at the bound index (relates two heap versions or two slices)
	reads []qread
	bv    *Term
	body  *Term // lo <= bv < hi => B(bv)
	guard *Term
	sorts map[string]bool // element sorts of the arrays the bound variable indexes ("*": none found, relevant to all)
	n     int
}

const maxPerFact = 64

// arrKey identifies the backing object of an element array term: the reference at which the element heap is read
// (the same for all heap versions), or the term itself for arrays that are not heap objects (strings).
func arrKey(arr *Term) string {
	ks := arrKeys(arr)
	return ks[0]
}

// arrKeys: all backing objects an element array term may denote (the branches of conditionals are followed;
// a store is an update of the same object).
func arrKeys(arr *Term) []string {
	var out []string
	seen := map[string]bool{}
	add := func(k string) {
		if !seen[k] && len(out) < 6 {
			seen[k] = true
			out = append(out, k)
		}
	}
	var walk func(t *Term, depth int)
	visited := map[int]bool{}
	walk = func(t *Term, depth int) {
		if depth > 64 || len(out) >= 6 || visited[t.id] {
			return
		}
		visited[t.id] = true
		switch t.op {
		case "select":
			if t.args[0].sort.isArray() {
				_, v := t.args[0].sort.arrayParts()
				if v.isArray() {
					add("ref:" + strconv.Itoa(t.args[1].id))
					return
				}
			}
			add("arr:" + strconv.Itoa(t.id))
		case "ite":
			walk(t.args[1], depth+1)
			walk(t.args[2], depth+1)
		case "store":
			walk(t.args[0], depth+1)
		default:
			add("arr:" + strconv.Itoa(t.id))
		}
	}
	walk(arr, 0)
	if len(out) == 0 {
		out = append(out, "arr:"+strconv.Itoa(arr.id))
	}
	return out
}

// indexSorts finds the element sorts of the arrays that are indexed by an expression containing bv.
func indexSorts(body, bv *Term) map[string]bool {
	out := map[string]bool{}
	memo := map[int]bool{}
	var mentions func(t *Term) bool
	mentions = func(t *Term) bool {
		if v, ok := memo[t.id]; ok {
			return v
		}
		r := t == bv
		for _, a := range t.args {
			if mentions(a) {
				r = true
			}
		}
		memo[t.id] = r
		return r
	}
	// the bound variable is the index itself (possibly shifted or scaled), not buried inside another read
	var direct func(t *Term) bool
	direct = func(t *Term) bool {
		if t == bv {
			return true
		}
		if t.op == "+" || t.op == "-" || t.op == "*" {
			for _, a := range t.args {
				if direct(a) {
					return true
				}
			}
		}
		return false
	}
	mentions = direct
	seen := map[int]bool{}
	var walk func(t *Term)
	walk = func(t *Term) {
		if seen[t.id] {
			return
		}
		seen[t.id] = true
		if len(t.op) > 3 && t.op[:3] == "at." && len(t.args) == 3 && mentions(t.args[2]) {
			for _, k := range arrKeys(t.args[0]) {
				out[k] = true
			}
			out["sort:"+t.op[3:]] = true
		}
		if t.op == "select" && mentions(t.args[1]) && t.args[0].sort.isArray() {
			for _, k := range arrKeys(t.args[0]) {
				out[k] = true
			}
			_, v := t.args[0].sort.arrayParts()
			out["sort:"+v.Name] = true
		}
		for _, a := range t.args {
			walk(a)
		}
	}
	walk(body)
	if len(out) == 0 {
		out["*"] = true
	}
	return out
}

const maxInstances = 2000

// isBoundedForall recognises Forall([bv], body) created by the contract language (single Int variable).
func isBoundedForall(t *Term) (*Term, *Term, bool) {
	if t.op != "forall" {
		return nil, nil, false
	}
	n, _ := strconv.Atoi(splitVal(t.val))
	if n != 1 || t.args[0].sort != SInt {
		return nil, nil, false
	}
	return t.args[0], t.args[1], true
}

func splitVal(v string) string {
	for i := 0; i < len(v); i++ {
		if v[i] == '|' {
			return v[:i]
		}
	}
	return v
}

// registerFacts walks an assumed formula and registers the bounded foralls that occur positively.
func (x *Exec) registerFacts(st *State, t *Term, guard *Term, depth int) {
	if depth > 6 {
		return
	}
	switch t.op {
	case "and":
		for _, a := range t.args {
			x.registerFacts(st, a, guard, depth+1)
		}
	case "=>":
		x.registerFacts(st, t.args[1], And(guard, t.args[0]), depth+1)
	case "or":
		// an existential disjunct may be named by a witness whatever the other disjuncts say (exists k. P => P(w))
		for _, a := range t.args {
			if a.op == "exists" {
				x.registerFacts(st, a, guard, depth+1)
			}
		}
	case "forall":
		bv, body, ok := isBoundedForall(t)
		if !ok || hasFreeBound(t) {
			return
		}
		key := [2]int{t.id, guard.id}
		if x.qseen[key] {
			return
		}
		x.qseen[key] = true
		f := &qfact{bv: bv, body: body, guard: guard, sorts: indexSorts(body, bv), reads: factReads(body, bv)}
		arrs := map[int]bool{}
		for _, rd := range f.reads {
			arrs[rd.arrID] = true
		}
		f.relational = len(arrs) >= 2
		x.qfacts = append(x.qfacts, f)
		if os.Getenv("GOVC_DEBUG") != "" {
			fmt.Fprintf(os.Stderr, "DEBUG register fact#%d sorts=%v body=%s\n", body.id, f.sorts, body.StringN(300))
		}
		for _, e := range x.interest {
			x.instantiate(st, f, e, depth)
		}
		for _, a := range x.absReads {
			x.instantiateAbs(st, f, a, depth)
		}
	case "=":
		// b == forall(...) : both directions are hypotheses
		if len(t.args) == 2 && t.args[0].sort == SBool && depth <= 4 {
			for i := 0; i < 2; i++ {
				q, b := t.args[i], t.args[1-i]
				if bv, body, ok := isBoundedForall(q); ok && !hasFreeBound(t) && !containsQuant(b) {
					x.registerFacts(st, q, And(guard, b), depth+1)
					ex := Exists([]*Term{bv}, Not(body))
					x.ctx.facts = append(x.ctx.facts, Implies(And(guard, t, Not(b)), ex))
					x.registerFacts(st, ex, And(guard, Not(b)), depth+1)
				}
			}
		}
	case "exists":
		// a positive existential hypothesis: name a witness
		n, _ := strconv.Atoi(splitVal(t.val))
		if n != 1 || hasFreeBound(t) || depth > 2 {
			return
		}
		// one witness per existential formula
		key := [2]int{t.id, -41}
		if x.qseen[key] {
			return
		}
		x.qseen[key] = true
		k := Fresh("witness", t.args[0].sort)
		inst := substTerm(t.args[1], map[int]*Term{t.args[0].id: k})
		x.ctx.facts = append(x.ctx.facts, Implies(t, inst))
		x.linkAtTerms(inst)
		// the witness is relevant to the arrays the existential talks about
		if x.witnessArrs == nil {
			x.witnessArrs = map[int]map[int]bool{}
		}
		x.witnessArrs[k.id] = map[int]bool{}
		for _, rd := range factReads(t.args[1], t.args[0]) {
			x.witnessArrs[k.id][rd.arrID] = true
		}
		for _, s := range sortedBoolKeys(indexSorts(t.args[1], t.args[0])) {
			if !strings.HasPrefix(s, "sort:") && os.Getenv("GOVC_NOWITNESS") == "" {
				x.addInterest(st, k, s)
			}
		}
		x.interestFromGoal(st, inst)
	}
}

func (x *Exec) instantiate(st *State, f *qfact, e *Term, depth int) {
	x.instantiateF(st, f, e, depth, false)
}

// instantiateAbs: the read a (array object, offset, index) and a read of the fact on the same object with another
// offset denote the same element when bv = a.off + a.idx - off - shift: instantiate there (slices of slices,
// substrings of strings).
func (x *Exec) instantiateAbs(st *State, f *qfact, a absRead, depth int) {
	for _, r := range f.reads {
		if r.off == a.off && r.shift == nil {
			continue // same offset: the plain index is the instance (handled by the interest terms)
		}
		match := false
		for _, k := range r.keys {
			for _, k2 := range a.keys {
				// strings (arrays that are not heap objects) may be equal without being the same term:
				// a line's text is a piece of the parsed text by a `same(...)` postcondition
				if k == k2 || (strings.HasPrefix(k, "arr:") && strings.HasPrefix(k2, "arr:") && r.sort == a.sort) {
					match = true
				}
			}
		}
		// a read at a named witness (of an existential hypothesis or of a sum link) is matched by element sort alone:
		// the two arrays may be the same object under different reference terms (r.entries before and after a call
		// that promises same(r.entries, old(r.entries)))
		if !match && os.Getenv("GOVC_FUZZYW") != "" && r.sort == a.sort && mentionsSym(a.idx, "sumw") {
			match = true
		}
		if !match {
			continue
		}
		e := Add(a.off, a.idx)
		e = Sub(e, r.off)
		if r.shift != nil {
			e = Sub(e, r.shift)
		}
		e = linNorm(e)
		if hasFreeBound(e) {
			continue
		}
		x.instantiateF(st, f, e, depth, true)
	}
}

func (x *Exec) instantiateF(st *State, f *qfact, e *Term, depth int, force bool) {
	// the witness of a sum link only matters for facts that relate two arrays (frame-like facts: "the summaries are
	// the same as before the call"); instantiating every fact about the object there only burns the instance budget
	if !f.relational && mentionsSym(e, "sumw") {
		return
	}
	if x.ninst >= maxInstances || e.sort != f.bv.sort || f.n >= maxPerFact {
		if os.Getenv("GOVC_DEBUG") != "" {
			fmt.Fprintf(os.Stderr, "DEBUG skip fact#%d at %s: ninst=%d f.n=%d\n", f.body.id, e.StringN(40), x.ninst, f.n)
		}
		return
	}
	// a witness of an existential hypothesis is only used with facts that read the very array (same object, same heap
	// version) the existential reads, or an array of the same object that the fact relates to it (frame-like facts)
	if wa, isW := x.witnessArrs[e.id]; isW && len(wa) > 0 && os.Getenv("GOVC_WLOOSE") == "" {
		hit := false
		for _, rd := range f.reads {
			if wa[rd.arrID] {
				hit = true
			}
		}
		if !hit {
			return
		}
	}
	// relevance: the term must have been used as an index into an array of a sort the fact talks about
	if !f.sorts["*"] && !force {
		rel := false
		for s := range x.interestSorts[e.id] {
			if f.sorts[s] || s == "*" {
				rel = true
			}
		}
		if !rel {
			return
		}
	}
	key := [3]int{f.body.id, f.guard.id, e.id}
	if x.instSeen == nil {
		x.instSeen = map[[3]int]bool{}
	}
	if x.instSeen[key] {
		return
	}
	x.instSeen[key] = true
	x.ninst++
	f.n++
	if os.Getenv("GOVC_DEBUG") != "" {
		fmt.Fprintf(os.Stderr, "DEBUG instantiate fact#%d at %s\n", f.body.id, e.StringN(60))
	}
	inst := substTerm(f.body, map[int]*Term{f.bv.id: e})
	x.ctx.facts = append(x.ctx.facts, Implies(f.guard, inst))
	x.inInst++
	isW := mentionsSym(e, "sumw")
	if isW {
		x.atWitness++
	}
	x.linkAtTerms(inst)
	x.typeReadsIn(st, inst)
	x.registerCanonsIn(st, inst)
	x.unfoldSumsIn(st, inst)
	x.registerFacts(st, inst, f.guard, depth+1)
	if isW {
		x.atWitness--
	}
	x.inInst--
}

// typeReadsIn adds the typing facts (value ranges, and: every reference is below the allocation counter of the
// program point that produced the heap version) of the ground heap reads inside an instance of a quantified fact.
// Reads evaluated by the executor get these facts when they are made; reads under a quantifier only become ground here.
func (x *Exec) typeReadsIn(st *State, t *Term) {
	seen := map[int]bool{}
	add := func(v *Term, sym *Term) {
		info, ok := heapSymInfo[sym.id]
		if !ok || hasFreeBound(v) {
			return
		}
		typ, ok := heapValType[info.name]
		if !ok {
			return
		}
		if strings.HasPrefix(info.name, "arr:") || strings.HasPrefix(info.name, "mapval:") {
			// element heaps are shared by all slices whose elements have the same sort ([]klog.Record and
			// []txt.Error both live in arr:Iface; []int and []*T in arr:Int): only facts that hold for every
			// Go type of that sort may be stated
			switch typ.Underlying().(type) {
			case *types.Interface:
				typ = types.NewInterfaceType(nil, nil)
			case *types.Struct, *types.Slice:
				// the sort names the struct type; slice facts are the same for all element types
			default:
				if b, isB := typ.Underlying().(*types.Basic); !isB || b.Info()&types.IsString == 0 {
					return
				}
			}
		}
		at := info.at
		if at == nil {
			at = x.job.alloc0
		}
		key := [2]int{v.id, at.id}
		if x.typed[key] {
			return
		}
		x.typed[key] = true
		if f := x.typeFact(&State{alloc: at}, v, typ, 0); f != True {
			x.ctx.facts = append(x.ctx.facts, f)
		}
	}
	// the array read is a conditional / updated version of heap arrays (a slice variable merged over paths, or read
	// through several heap versions): every leaf array holds well-typed elements with respect to its own version
	var leaves func(arr, idx *Term, depth int)
	leaves = func(arr, idx *Term, depth int) {
		if depth > 8 || hasFreeBound(idx) || os.Getenv("GOVC_NOLEAVES") != "" {
			return
		}
		switch arr.op {
		case "ite":
			if depth < 4 {
				leaves(arr.args[1], idx, depth+1)
				leaves(arr.args[2], idx, depth+1)
			}
		case "select":
			if len(arr.args) == 2 && !hasFreeBound(arr) {
				add(Select(arr, idx), arr.args[0])
			}
		}
	}
	var walk func(t *Term)
	walk = func(t *Term) {
		if seen[t.id] || t.op == "forall" || t.op == "exists" {
			return
		}
		seen[t.id] = true
		switch {
		case t.op == "select" && len(t.args) == 2:
			a := t.args[0]
			if a.op == "select" && len(a.args) == 2 {
				add(t, a.args[0]) // element of a slice's backing array
			} else if a.op == "ite" && !t.sort.isArray() {
				leaves(a, t.args[1], 0)
			} else if !t.sort.isArray() {
				add(t, a) // field map
			}
		case len(t.op) > 3 && t.op[:3] == "at." && len(t.args) == 3:
			if a := t.args[0]; a.op == "select" && len(a.args) == 2 {
				add(t, a.args[0])
			} else if a.op == "ite" {
				leaves(a, Add(t.args[1], t.args[2]), 0)
			}
		}
		for _, a := range t.args {
			walk(a)
		}
	}
	walk(t)
}

// unfoldSumsIn unfolds every ground sum application inside t once.
func (x *Exec) unfoldSumsIn(st *State, t *Term) {
	seen := map[int]bool{}
	var walk func(t *Term)
	walk = func(t *Term) {
		if seen[t.id] || t.op == "forall" || t.op == "exists" {
			return
		}
		seen[t.id] = true
		if len(t.op) > 4 && t.op[:4] == "sum#" {
			x.unfoldSum(st, t)
		}
		for _, a := range t.args {
			walk(a)
		}
	}
	walk(t)
}

// linkAtTerms adds, for every ground application at.S(a, o, k) inside t, its defining equation with select.
func (x *Exec) linkAtTerms(t *Term) {
	seen := map[int]bool{}
	var walk func(t *Term, under bool)
	walk = func(t *Term, under bool) {
		if seen[t.id] {
			return
		}
		seen[t.id] = true
		if t.op == "forall" || t.op == "exists" {
			return
		}
		if len(t.op) > 3 && t.op[:3] == "at." && len(t.args) == 3 && !hasFreeBound(t) {
			key := [2]int{t.id, -31}
			if !x.qseen[key] {
				x.qseen[key] = true
				x.ctx.facts = append(x.ctx.facts, Eq(t, Select(t.args[0], Add(t.args[1], t.args[2]))))
			}
		}
		for _, a := range t.args {
			walk(a, under)
		}
	}
	walk(t, false)
}

// addInterest records an index term (with the element sort of the array it indexes; "*" for skolem
// constants) and instantiates the relevant known facts at it.
func (x *Exec) addInterest(st *State, e *Term, sort string) {
	if e == nil || hasFreeBound(e) {
		return
	}
	if x.interestSeen == nil {
		x.interestSeen = map[int]bool{}
		x.interestSorts = map[int]map[string]bool{}
	}
	if x.interestSorts[e.id] == nil {
		x.interestSorts[e.id] = map[string]bool{}
	}
	if x.interestSorts[e.id][sort] {
		return
	}
	x.interestSorts[e.id][sort] = true
	if !x.interestSeen[e.id] {
		x.interestSeen[e.id] = true
		x.interest = append(x.interest, e)
	}
	for _, f := range x.qfacts {
		x.instantiate(st, f, e, 0)
	}
}

// skolemize replaces positively occurring bounded foralls of a goal by fresh constants.
func (x *Exec) skolemize(st *State, g *Term, depth int) *Term {
	if depth > 6 {
		return g
	}
	switch g.op {
	case "and":
		var as []*Term
		for _, a := range g.args {
			as = append(as, x.skolemize(st, a, depth+1))
		}
		return And(as...)
	case "or":
		var as []*Term
		for _, a := range g.args {
			as = append(as, x.skolemize(st, a, depth+1))
		}
		return Or(as...)
	case "=>":
		// hypotheses of the goal are available as facts for instantiation
		x.registerFacts(st, g.args[0], st.pc, depth+1)
		return Implies(g.args[0], x.skolemize(st, g.args[1], depth+1))
	case "exists":
		// an existential goal: offer the solver instances at the candidate witnesses (G or body[e] is equivalent
		// to G, each instance implies G): the bounds of the range, and the terms of interest for the arrays indexed
		if splitVal(g.val) != "1" || g.args[0].sort != SInt || hasFreeBound(g) || depth > 3 {
			return g
		}
		bv, body := g.args[0], g.args[1]
		var cands []*Term
		seen := map[int]bool{}
		addC := func(e *Term) {
			if e != nil && !seen[e.id] && !hasFreeBound(e) && len(cands) < 12 {
				seen[e.id] = true
				cands = append(cands, e)
			}
		}
		for _, c := range conjList(body) {
			// lo <= bv , bv < hi
			if c.op == "<=" && c.args[1] == bv {
				addC(c.args[0])
			}
			if c.op == "<" && c.args[0] == bv {
				addC(Sub(c.args[1], IntLit(1)))
			}
		}
		// reads of the same object through another offset (a witness inside a substring)
		reads := factReads(body, bv)
		// witnesses of existential hypotheses first: they are what an existential conclusion is usually built from
		for pass := 0; pass < 2; pass++ {
			for i := len(x.absReads) - 1; i >= 0 && len(cands) < 8; i-- {
				a := x.absReads[i]
				if isW := mentionsWitness(a.idx); (pass == 0) != isW {
					continue
				}
				for _, r := range reads {
					match := false
					for _, k := range r.keys {
						for _, k2 := range a.keys {
							if k == k2 || (strings.HasPrefix(k, "arr:") && strings.HasPrefix(k2, "arr:") && r.sort == a.sort) {
								match = true
							}
						}
					}
					if !match || (r.off == a.off && r.shift == nil && pass == 1) {
						continue
					}
					e := Sub(Add(a.off, a.idx), r.off)
					if r.shift != nil {
						e = Sub(e, r.shift)
					}
					addC(linNorm(e))
				}
			}
		}
		srt := indexSorts(body, bv)
		for i := len(x.interest) - 1; i >= 0; i-- {
			e := x.interest[i]
			for sk := range x.interestSorts[e.id] {
				if srt[sk] && !strings.HasPrefix(sk, "sort:") {
					addC(e)
				}
			}
			for sk := range x.idxElemSort[e.id] {
				if srt[sk] {
					addC(e)
				}
			}
		}
		alts := []*Term{g}
		if os.Getenv("GOVC_DEBUG") != "" {
			for _, e := range cands {
				fmt.Fprintf(os.Stderr, "DEBUG exists-goal candidate %s\n", e.StringN(200))
			}
		}
		for _, e := range cands {
			inst := substTerm(body, map[int]*Term{bv.id: e})
			x.linkAtTerms(inst)
			alts = append(alts, inst)
		}
		return Or(alts...)
	case "forall":
		bv, body, ok := isBoundedForall(g)
		if !ok || hasFreeBound(g) {
			return g
		}
		k := Fresh("sk."+bv.val, bv.sort)
		inst := substTerm(body, map[int]*Term{bv.id: k})
		// nested quantification (a forall over blocks of a forall over lines): the skolem constant is only
		// relevant to facts about the arrays it indexes in the goal; otherwise every hypothesis is instantiated
		// at every skolem constant of every level, which exhausts the instance budget.
		if srt := indexSorts(body, bv); len(srt) > 0 && !srt["*"] {
			for _, s := range sortedBoolKeys(srt) {
				if strings.HasPrefix(s, "sort:") {
					x.addInterest(st, k, s)
				}
			}
		} else {
			x.addInterest(st, k, "*")
		}
		x.skNest++
		r := x.skolemize(st, inst, depth+1)
		x.skNest--
		return r
	}
	return g
}

func containsQuant(t *Term) bool {
	seen := map[int]bool{}
	var walk func(t *Term) bool
	walk = func(t *Term) bool {
		if seen[t.id] {
			return false
		}
		seen[t.id] = true
		if t.op == "forall" || t.op == "exists" {
			return true
		}
		for _, a := range t.args {
			if walk(a) {
				return true
			}
		}
		return false
	}
	return walk(t)
}

// interestFromGoal: the index expressions of the (skolemised) goal's element reads, such as sk+1, are terms of
// interest for the hypotheses about the same arrays. Only goals are scanned: doing the same for instances of
// hypotheses would chase a[k+1], a[k+2], ... without end.
func (x *Exec) interestFromGoal(st *State, g *Term) {
	seen := map[int]bool{}
	var walk func(t *Term)
	walk = func(t *Term) {
		if seen[t.id] || t.op == "forall" || t.op == "exists" {
			return
		}
		seen[t.id] = true
		if len(t.op) > 3 && t.op[:3] == "at." && len(t.args) == 3 && !hasFreeBound(t) {
			x.addReadInterest(st, t.args[0], t.args[1], t.args[2])
		}
		for _, a := range t.args {
			walk(a)
		}
	}
	walk(g)
}

// factReads lists the reads at.S(arr, off, bv [+ shift]) of a quantified body.
func factReads(body, bv *Term) []qread {
	var out []qread
	seen := map[int]bool{}
	var walk func(t *Term)
	walk = func(t *Term) {
		if seen[t.id] {
			return
		}
		seen[t.id] = true
		if len(t.op) > 3 && t.op[:3] == "at." && len(t.args) == 3 && len(out) < 8 {
			idx := t.args[2]
			var shift *Term
			ok := idx == bv
			if !ok && idx.op == "+" && len(idx.args) == 2 {
				if idx.args[0] == bv && !mentionsTerm(idx.args[1], bv) {
					ok, shift = true, idx.args[1]
				} else if idx.args[1] == bv && !mentionsTerm(idx.args[0], bv) {
					ok, shift = true, idx.args[0]
				}
			}
			if ok && !mentionsTerm(t.args[1], bv) && !mentionsTerm(t.args[0], bv) {
				out = append(out, qread{arrID: t.args[0].id, sort: t.args[0].sort, keys: arrKeys(t.args[0]), off: t.args[1], shift: shift})
			}
		}
		for _, a := range t.args {
			walk(a)
		}
	}
	walk(body)
	return out
}

func mentionsTerm(t, v *Term) bool {
	seen := map[int]bool{}
	var walk func(t *Term) bool
	walk = func(t *Term) bool {
		if t == v {
			return true
		}
		if seen[t.id] {
			return false
		}
		seen[t.id] = true
		for _, a := range t.args {
			if walk(a) {
				return true
			}
		}
		return false
	}
	return walk(t)
}

// linNorm normalises an integer term built from + and - (and literal factors): like summands cancel.
func linNorm(t *Term) *Term {
	type ent struct {
		t *Term
		c int64
	}
	var order []int
	coef := map[int]*ent{}
	var konst int64
	var walk func(t *Term, c int64)
	walk = func(t *Term, c int64) {
		if v, ok := t.intVal(); ok {
			konst += c * v
			return
		}
		switch {
		case t.op == "+":
			for _, a := range t.args {
				walk(a, c)
			}
			return
		case t.op == "-" && len(t.args) == 2:
			walk(t.args[0], c)
			walk(t.args[1], -c)
			return
		case t.op == "*" && len(t.args) == 2:
			if v, ok := t.args[0].intVal(); ok {
				walk(t.args[1], c*v)
				return
			}
			if v, ok := t.args[1].intVal(); ok {
				walk(t.args[0], c*v)
				return
			}
		}
		if e, ok := coef[t.id]; ok {
			e.c += c
		} else {
			coef[t.id] = &ent{t, c}
			order = append(order, t.id)
		}
	}
	walk(t, 1)
	var r *Term
	add := func(u *Term) {
		if r == nil {
			r = u
		} else {
			r = Add(r, u)
		}
	}
	for _, id := range order {
		e := coef[id]
		switch {
		case e.c == 0:
		case e.c == 1:
			add(e.t)
		case e.c > 1:
			add(Mul(IntLit(e.c), e.t))
		}
	}
	for _, id := range order {
		e := coef[id]
		if e.c < 0 {
			u := e.t
			if e.c != -1 {
				u = Mul(IntLit(-e.c), e.t)
			}
			if r == nil {
				r = Sub(IntLit(0), u)
			} else {
				r = Sub(r, u)
			}
		}
	}
	if r == nil {
		return IntLit(konst)
	}
	if konst != 0 {
		r = Add(r, IntLit(konst))
	}
	return r
}

// addReadInterest records an element read: the index is a term of interest for the facts about the same backing
// object, and the absolute position (offset + index) for facts that read the object through another offset.
func (x *Exec) addReadInterest(st *State, arr, off, idx *Term) {
	if hasFreeBound(idx) || hasFreeBound(off) || hasFreeBound(arr) {
		return
	}
	keys := arrKeys(arr)
	for _, k := range keys {
		x.addInterest(st, idx, k)
	}
	if x.idxElemSort == nil {
		x.idxElemSort = map[int]map[string]bool{}
	}
	if x.idxElemSort[idx.id] == nil {
		x.idxElemSort[idx.id] = map[string]bool{}
	}
	if _, v := arr.sort.arrayParts(); v != nil {
		x.idxElemSort[idx.id]["sort:"+v.Name] = true
	}
	key := [2]int{Add(off, idx).id*31 + arr.id, -57}
	if x.qseen[key] || len(x.absReads) > 400 {
		return
	}
	x.qseen[key] = true
	a := absRead{sort: arr.sort, keys: keys, off: off, idx: idx}
	x.absReads = append(x.absReads, a)
	for _, f := range x.qfacts {
		x.instantiateAbs(st, f, a, 0)
	}
}

func mentionsWitness(t *Term) bool {
	seen := map[int]bool{}
	var walk func(t *Term) bool
	walk = func(t *Term) bool {
		if seen[t.id] {
			return false
		}
		seen[t.id] = true
		if t.op == "sym" && (strings.HasPrefix(t.val, "witness") || strings.HasPrefix(t.val, "sumw")) {
			return true
		}
		for _, a := range t.args {
			if walk(a) {
				return true
			}
		}
		return false
	}
	return walk(t)
}

func sortedBoolKeys(m map[string]bool) []string {
	out := make([]string, 0, len(m))
	for k := range m {
		out = append(out, k)
	}
	sort.Strings(out)
	return out
}

func mentionsSym(t *Term, prefix string) bool {
	seen := map[int]bool{}
	var walk func(t *Term) bool
	walk = func(t *Term) bool {
		if seen[t.id] {
			return false
		}
		seen[t.id] = true
		if t.op == "sym" && strings.HasPrefix(t.val, prefix) {
			return true
		}
		for _, a := range t.args {
			if walk(a) {
				return true
			}
		}
		return false
	}
	return walk(t)
}
