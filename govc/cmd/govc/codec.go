package main

// A-CODEC: abstract contracts for regexp matching with literal patterns, strconv and fmt.
// The language of each pattern is proved equivalent to its specification by the regex-equivalence
// obligations (regexeq.go); which substring each capture group receives is the trusted part,
// checked by the validators.

import (
	"fmt"
	"go/token"
	"go/types"
	"regexp/syntax"
	"strings"

	"golang.org/x/tools/go/ssa"
)

type groupClass struct {
	optional bool     // may not participate (then it is "")
	lits     []string // finite language, if known
	digits   bool     // \d{min,max}
	min, max int      // max -1: unbounded
	delim    rune     // c [^c]* c : starts and ends with c, no c in between (0: not of this shape)
	class    []rune   // (class)* or (class)+ : every byte is >= 0x80 or an ASCII member of these ranges
	classMin int
	altOf    []int    // the body is an alternation of exactly these capture groups
}

// classifyGroups derives per-capture-group constraints from the pattern's syntax tree.
func classifyGroups(pat string) (n int, cls map[int]*groupClass, anchoredStart, anchoredEnd bool, err error) {
	re, err := syntax.Parse(pat, syntax.Perl)
	if err != nil {
		return 0, nil, false, false, err
	}
	n = re.MaxCap()
	cls = map[int]*groupClass{}
	var walk func(r *syntax.Regexp, optional bool)
	walk = func(r *syntax.Regexp, optional bool) {
		switch r.Op {
		case syntax.OpCapture:
			gc := &groupClass{optional: optional}
			classifyBody(r.Sub[0], gc)
			cls[r.Cap] = gc
			walk(r.Sub[0], optional)
		case syntax.OpQuest, syntax.OpStar:
			for _, s := range r.Sub {
				walk(s, true)
			}
		case syntax.OpRepeat:
			for _, s := range r.Sub {
				walk(s, optional || r.Min == 0)
			}
		case syntax.OpAlternate:
			for _, s := range r.Sub {
				walk(s, true)
			}
		default:
			for _, s := range r.Sub {
				walk(s, optional)
			}
		}
	}
	walk(re, false)
	s := re
	if s.Op == syntax.OpConcat && len(s.Sub) > 0 {
		anchoredStart = s.Sub[0].Op == syntax.OpBeginText || s.Sub[0].Op == syntax.OpBeginLine
		last := s.Sub[len(s.Sub)-1]
		anchoredEnd = last.Op == syntax.OpEndText || last.Op == syntax.OpEndLine
	}
	return
}

func isDigitClass(r *syntax.Regexp) bool {
	return r.Op == syntax.OpCharClass && len(r.Rune) == 2 && r.Rune[0] == '0' && r.Rune[1] == '9'
}

func classifyBody(r *syntax.Regexp, gc *groupClass) {
	// digits
	switch {
	case isDigitClass(r):
		gc.digits, gc.min, gc.max = true, 1, 1
		return
	case r.Op == syntax.OpPlus && isDigitClass(r.Sub[0]):
		gc.digits, gc.min, gc.max = true, 1, -1
		return
	case r.Op == syntax.OpStar && isDigitClass(r.Sub[0]):
		gc.digits, gc.min, gc.max = true, 0, -1
		return
	case r.Op == syntax.OpRepeat && isDigitClass(r.Sub[0]):
		gc.digits, gc.min, gc.max = true, r.Min, r.Max
		return
	}
	if ls, ok := finiteLang(r, 8); ok {
		gc.lits = ls
		return
	}
	// c [^c]* c
	if r.Op == syntax.OpConcat && len(r.Sub) == 3 && r.Sub[0].Op == syntax.OpLiteral && len(r.Sub[0].Rune) == 1 && r.Sub[0].Rune[0] < 0x80 &&
		r.Sub[2].Op == syntax.OpLiteral && len(r.Sub[2].Rune) == 1 && r.Sub[2].Rune[0] == r.Sub[0].Rune[0] &&
		r.Sub[1].Op == syntax.OpStar && r.Sub[1].Sub[0].Op == syntax.OpCharClass {
		c := r.Sub[0].Rune[0]
		in := false
		cc := r.Sub[1].Sub[0]
		for i := 0; i+1 < len(cc.Rune); i += 2 {
			if cc.Rune[i] <= c && c <= cc.Rune[i+1] {
				in = true
			}
		}
		if !in {
			gc.delim = c
		}
		return
	}
	// (class)* / (class)+
	if (r.Op == syntax.OpStar || r.Op == syntax.OpPlus) && r.Sub[0].Op == syntax.OpCharClass {
		gc.class = append([]rune{}, r.Sub[0].Rune...)
		if r.Op == syntax.OpPlus {
			gc.classMin = 1
		}
		return
	}
	// alternation of capture groups
	if r.Op == syntax.OpAlternate {
		var caps []int
		for _, sub := range r.Sub {
			if sub.Op != syntax.OpCapture {
				return
			}
			caps = append(caps, sub.Cap)
		}
		gc.altOf = caps
	}
}

// finiteLang enumerates the language of r if it is finite and small.
func finiteLang(r *syntax.Regexp, limit int) ([]string, bool) {
	switch r.Op {
	case syntax.OpLiteral:
		if r.Flags&syntax.FoldCase != 0 {
			return nil, false
		}
		return []string{string(r.Rune)}, true
	case syntax.OpEmptyMatch:
		return []string{""}, true
	case syntax.OpCharClass:
		var out []string
		for i := 0; i+1 < len(r.Rune); i += 2 {
			for c := r.Rune[i]; c <= r.Rune[i+1]; c++ {
				out = append(out, string(c))
				if len(out) > limit {
					return nil, false
				}
			}
		}
		return out, true
	case syntax.OpAlternate:
		var out []string
		for _, s := range r.Sub {
			l, ok := finiteLang(s, limit)
			if !ok {
				return nil, false
			}
			out = append(out, l...)
			if len(out) > limit {
				return nil, false
			}
		}
		return out, true
	case syntax.OpConcat:
		out := []string{""}
		for _, s := range r.Sub {
			l, ok := finiteLang(s, limit)
			if !ok {
				return nil, false
			}
			var nx []string
			for _, a := range out {
				for _, b := range l {
					nx = append(nx, a+b)
				}
			}
			if len(nx) > limit {
				return nil, false
			}
			out = nx
		}
		return out, true
	case syntax.OpQuest:
		l, ok := finiteLang(r.Sub[0], limit)
		if !ok {
			return nil, false
		}
		return append([]string{""}, l...), true
	case syntax.OpCapture:
		return finiteLang(r.Sub[0], limit)
	}
	return nil, false
}


// ---- shape of simple anchored patterns ----
// A pattern of the form ^ a1 a2 ... an $ where every atom is a literal ASCII character, a digit class or a bounded
// repeat \d{m,n}, and only the last atom has a variable length, is equivalent to: the length lies between the bounds
// and the byte at each position belongs to its atom. shapeFacts returns that characterisation of a match (an iff).
type shapeAtom struct {
	lit      rune // 0: digit
	min, max int
}

func patternShape(pat string) ([]shapeAtom, bool) {
	re, err := syntax.Parse(pat, syntax.Perl)
	if err != nil || re.Op != syntax.OpConcat || len(re.Sub) < 3 {
		return nil, false
	}
	subs := re.Sub
	if !(subs[0].Op == syntax.OpBeginText || subs[0].Op == syntax.OpBeginLine) || !(subs[len(subs)-1].Op == syntax.OpEndText || subs[len(subs)-1].Op == syntax.OpEndLine) {
		return nil, false
	}
	var atoms []shapeAtom
	for _, a := range subs[1 : len(subs)-1] {
		switch {
		case a.Op == syntax.OpLiteral && a.Flags&syntax.FoldCase == 0:
			for _, r := range a.Rune {
				if r >= 0x80 {
					return nil, false
				}
				atoms = append(atoms, shapeAtom{lit: r, min: 1, max: 1})
			}
		case isDigitClass(a):
			atoms = append(atoms, shapeAtom{min: 1, max: 1})
		case a.Op == syntax.OpRepeat && isDigitClass(a.Sub[0]) && a.Max >= a.Min && a.Max <= 8:
			atoms = append(atoms, shapeAtom{min: a.Min, max: a.Max})
		default:
			return nil, false
		}
	}
	for i, a := range atoms {
		if a.min != a.max && i != len(atoms)-1 {
			return nil, false
		}
	}
	return atoms, true
}

func (x *Exec) shapeFacts(st *State, ri *RegexInfo, s *Term) {
	atoms, ok := patternShape(ri.Pattern)
	if !ok || hasFreeBound(s) {
		return
	}
	key := [2]int{reMatched(ri, s).id, -77}
	if x.typed[key] {
		return
	}
	x.typed[key] = true
	isDigit := func(b *Term) *Term { return And(Le(IntLit(48), b), Le(b, IntLit(57))) }
	var cs []*Term
	pos := 0
	lmin, lmax := 0, 0
	for _, a := range atoms {
		for k := 0; k < a.max; k++ {
			b := strAt(s, IntLit(int64(pos+k)))
			var c *Term
			if a.lit != 0 {
				c = Eq(b, IntLit(int64(a.lit)))
			} else {
				c = isDigit(b)
			}
			if k >= a.min {
				c = Implies(Gt(strLen(s), IntLit(int64(pos+k))), c)
			}
			cs = append(cs, c)
		}
		pos += a.max
		lmin += a.min
		lmax += a.max
	}
	cs = append(cs, Le(IntLit(int64(lmin)), strLen(s)), Le(strLen(s), IntLit(int64(lmax))))
	x.ctx.assumeGlobal(st, Eq(reMatched(ri, s), And(cs...)))
}

// shortNumFacts: a string of one to four decimal digits is a numeral with the obvious value (A-CODEC made concrete).
func (x *Exec) shortNumFacts(st *State, s *Term) {
	if hasFreeBound(s) {
		return
	}
	key := [2]int{s.id, -78}
	if x.typed[key] {
		return
	}
	x.typed[key] = true
	isDigit := func(b *Term) *Term { return And(Le(IntLit(48), b), Le(b, IntLit(57))) }
	for L := 1; L <= 4; L++ {
		conds := []*Term{Eq(strLen(s), IntLit(int64(L)))}
		val := IntLit(0)
		for k := 0; k < L; k++ {
			b := strAt(s, IntLit(int64(k)))
			conds = append(conds, isDigit(b))
			val = Add(Mul(val, IntLit(10)), Sub(b, IntLit(48)))
		}
		x.ctx.assumeGlobal(st, Implies(And(conds...), And(strIsDigits(s), Eq(strNum(s), val))))
	}
}

// runLen: the length of the run of byte c in s that starts at position q (0 when s[q] is not c or q is the end).
func (x *Exec) runLen(st *State, s, q *Term, c int64) *Term {
	n := UF("gs.runlen", SInt, s, q, IntLit(c))
	key := [2]int{n.id, -81}
	if !x.typed[key] {
		x.typed[key] = true
		k := BoundVar("k", SInt)
		e := Add(q, n)
		x.ctx.assumeGlobal(st, And(Le(IntLit(0), n), Le(e, strLen(s)),
			Forall([]*Term{k}, Implies(And(Le(q, k), Lt(k, e)), Eq(strAt(s, k), IntLit(c))), []*Term{strAt(s, k)}),
			Or(Eq(e, strLen(s)), Neq(strAt(s, e), IntLit(c))),
			Implies(And(Lt(q, strLen(s)), Eq(strAt(s, q), IntLit(c))), Ge(n, IntLit(1)))))
	}
	return n
}

// firstIndexFacts: i = the first position of byte c in s (len(s) when there is none).
func (x *Exec) firstIndex(st *State, s *Term, c int64) (*Term, *Term) {
	i := UF("gs.firstindex", SInt, s, IntLit(c))
	has := And(Le(IntLit(0), i), Lt(i, strLen(s)))
	key := [2]int{i.id, -79}
	if !x.typed[key] {
		x.typed[key] = true
		j := BoundVar("j", SInt)
		x.ctx.assumeGlobal(st, And(Le(IntLit(0), i), Le(i, strLen(s)), Implies(has, Eq(strAt(s, i), IntLit(c))),
			Forall([]*Term{j}, Implies(And(Le(IntLit(0), j), Lt(j, i)), Neq(strAt(s, j), IntLit(c))), []*Term{strAt(s, j)})))
		// ground instances for the first positions (short literals such as period patterns need no matching then)
		for p := int64(0); p < 10; p++ {
			x.ctx.assumeGlobal(st, Implies(Lt(IntLit(p), i), Neq(strAt(s, IntLit(p)), IntLit(c))))
		}
	}
	return i, has
}

// ---- leftmost match of patterns of the form  c (class)+  (an optional capture around it) ----
// findShape recognises such a pattern: an ASCII literal followed by at least one character of an ASCII-only class.
func findShape(pat string) (c rune, class []rune, ok bool) {
	re, err := syntax.Parse(pat, syntax.Perl)
	if err != nil {
		return 0, nil, false
	}
	for re.Op == syntax.OpCapture {
		re = re.Sub[0]
	}
	if re.Op != syntax.OpConcat || len(re.Sub) != 2 {
		return 0, nil, false
	}
	l, p := re.Sub[0], re.Sub[1]
	if l.Op != syntax.OpLiteral || len(l.Rune) != 1 || l.Rune[0] >= 0x80 || l.Flags&syntax.FoldCase != 0 {
		return 0, nil, false
	}
	if p.Op != syntax.OpPlus || p.Sub[0].Op != syntax.OpCharClass {
		return 0, nil, false
	}
	cls := p.Sub[0].Rune
	for i := 0; i+1 < len(cls); i += 2 {
		if cls[i+1] >= 0x80 {
			return 0, nil, false
		}
		if cls[i] <= l.Rune[0] && l.Rune[0] <= cls[i+1] {
			return 0, nil, false // the literal must not be a class member (keeps "leftmost" simple)
		}
	}
	return l.Rune[0], cls, true
}

func reFindLo(ri *RegexInfo, s *Term) *Term { return UF("re.find.lo."+reName(ri), SInt, s) }
func reFindHi(ri *RegexInfo, s *Term) *Term { return UF("re.find.hi."+reName(ri), SInt, s) }

// findFacts: [lo, hi) is the leftmost match of  c (class)+  in s (greedy: it ends where the class ends); lo == hi == 0
// when there is no match.
func (x *Exec) findFacts(st *State, ri *RegexInfo, s *Term) bool {
	c, cls, ok := findShape(ri.Pattern)
	if !ok || hasFreeBound(s) {
		return ok
	}
	lo, hi := reFindLo(ri, s), reFindHi(ri, s)
	key := [2]int{lo.id, -80}
	if x.typed[key] {
		return true
	}
	x.typed[key] = true
	inClass := func(b *Term) *Term {
		var alts []*Term
		for i := 0; i+1 < len(cls); i += 2 {
			alts = append(alts, And(Le(IntLit(int64(cls[i])), b), Le(b, IntLit(int64(cls[i+1])))))
		}
		return Or(alts...)
	}
	startsAt := func(j *Term) *Term {
		return And(Eq(strAt(s, j), IntLit(int64(c))), Lt(Add(j, IntLit(1)), strLen(s)), inClass(strAt(s, Add(j, IntLit(1)))))
	}
	found := Lt(lo, hi)
	k := BoundVar("k", SInt)
	j := BoundVar("j", SInt)
	j2 := BoundVar("j", SInt)
	x.ctx.assumeGlobal(st, And(Le(IntLit(0), lo), Le(lo, hi), Le(hi, strLen(s)),
		Implies(found, And(startsAt(lo), Ge(hi, Add(lo, IntLit(2))),
			Forall([]*Term{k}, Implies(And(Lt(lo, k), Lt(k, hi)), inClass(strAt(s, k))), []*Term{strAt(s, k)}),
			Or(Eq(hi, strLen(s)), Not(inClass(strAt(s, hi)))),
			Forall([]*Term{j}, Implies(And(Le(IntLit(0), j), Lt(j, lo)), Not(startsAt(j))), []*Term{strAt(s, j)}))),
		Implies(Not(found), And(Eq(lo, IntLit(0)), Eq(hi, IntLit(0)),
			Forall([]*Term{j2}, Implies(And(Le(IntLit(0), j2), Lt(j2, strLen(s))), Not(startsAt(j2))), []*Term{strAt(s, j2)})))))
	return true
}

func reName(ri *RegexInfo) string {
	n := ri.Name
	if i := strings.LastIndex(n, "/"); i >= 0 {
		n = n[i+1:]
	}
	return sanitize(n)
}

func reMatched(ri *RegexInfo, s *Term) *Term { return UF("re.matches."+reName(ri), SBool, s) }
func reGroup(ri *RegexInfo, s *Term, i int) *Term {
	return UF(fmt.Sprintf("re.group%d.%s", i, reName(ri)), SStr, s)
}
func strIsDigits(s *Term) *Term { return UF("gs.isdigits", SBool, s) }
func strNum(s *Term) *Term      { return UF("gs.num", SInt, s) }

func pow10(n int) *Term {
	s := "1" + strings.Repeat("0", n)
	return IntLitStr(s)
}

// digitsFacts: consequences of isdigits(g) with a length in [min,max].
func digitsFacts(g *Term, min, max int) *Term {
	cs := []*Term{strIsDigits(g), Ge(strLen(g), IntLit(int64(min))), Ge(strNum(g), IntLit(0))}
	if max >= 0 {
		cs = append(cs, Le(strLen(g), IntLit(int64(max))))
		if max <= 18 {
			cs = append(cs, Lt(strNum(g), pow10(max)))
		}
	}
	return And(cs...)
}

// groupFacts: what is known about capture group i of a successful match.
func (x *Exec) groupFacts(ri *RegexInfo, s *Term, i int, gc *groupClass) *Term {
	g := reGroup(ri, s, i)
	base := And(Ge(strLen(g), IntLit(0)), Le(strLen(g), strLen(s)), Ge(strOff(g), IntLit(0)))
	empty := Eq(strLen(g), IntLit(0))
	var body *Term = True
	if gc == nil {
		return base
	}
	if gc.digits {
		body = digitsFacts(g, gc.min, gc.max)
		if gc.min == 0 {
			body = Or(empty, body)
		}
	} else if gc.lits != nil {
		alts := []*Term{}
		for _, l := range gc.lits {
			alts = append(alts, strEqLit(g, l))
		}
		body = Or(alts...)
	} else if gc.delim != 0 {
		c := IntLit(int64(gc.delim))
		j := BoundVar("j", SInt)
		body = And(Ge(strLen(g), IntLit(2)), Eq(strAt(g, IntLit(0)), c), Eq(strAt(g, Sub(strLen(g), IntLit(1))), c),
			Forall([]*Term{j}, Implies(And(Le(IntLit(1), j), Lt(j, Sub(strLen(g), IntLit(1)))), Neq(strAt(g, j), c)), []*Term{strAt(g, j)}))
	} else if gc.class != nil {
		j := BoundVar("j", SInt)
		b := strAt(g, j)
		var mem []*Term
		for i := 0; i+1 < len(gc.class); i += 2 {
			lo, hi := gc.class[i], gc.class[i+1]
			if lo >= 0x80 {
				continue
			}
			if hi >= 0x80 {
				hi = 0x7f
			}
			mem = append(mem, And(Le(IntLit(int64(lo)), b), Le(b, IntLit(int64(hi)))))
		}
		mem = append(mem, Ge(b, IntLit(0x80)))
		body = And(Ge(strLen(g), IntLit(int64(gc.classMin))),
			Forall([]*Term{j}, Implies(And(Le(IntLit(0), j), Lt(j, strLen(g))), Or(mem...)), []*Term{strAt(g, j)}))
	} else if gc.altOf != nil {
		// exactly one alternative participates (a non-participating group is ""); the group is that alternative's text;
		// when all are empty the group equals the last alternative that can match the empty string (it is empty too)
		var cs []*Term
		allEmpty := True
		for _, k := range gc.altOf {
			gk := reGroup(ri, s, k)
			cs = append(cs, Implies(Gt(strLen(gk), IntLit(0)), Eq(g, gk)))
			allEmpty = And(allEmpty, Eq(strLen(gk), IntLit(0)))
		}
		cs = append(cs, Implies(allEmpty, empty))
		body = And(cs...)
	} else {
		body = True
	}
	if gc.optional {
		body = Or(empty, body)
	}
	return And(base, body, Implies(strIsDigits(g), Gt(strLen(g), IntLit(0))))
}

func (x *Exec) regexOf(v *Val) *RegexInfo {
	if v.Regex == nil {
		unsupportedf("regexp method on a pattern that is not a package-level literal")
	}
	return v.Regex
}

func init() {
	strT := types.Typ[types.String]
	prelude["regexp.MustCompile"] = func(x *Exec, st *State, callee *ssa.Function, args []*Val, pos token.Pos) *Val {
		x.trusted["A-CODEC"] = true
		lit, ok := literalOf(args[0].T)
		if !ok {
			unsupportedf("regexp.MustCompile of a non-literal")
		}
		v := x.freshVal(st, "regex", callee.Signature.Results().At(0).Type())
		x.ctx.assume(st, Neq(v.T, IntLit(0)))
		v.Regex = &RegexInfo{Name: fmt.Sprintf("local%d@%s", len(x.job.localRegex), x.job.Name), Pattern: lit}
		x.job.localRegex = append(x.job.localRegex, v.Regex)
		return v
	}
	prelude["regexp.(*Regexp).FindStringSubmatch"] = func(x *Exec, st *State, callee *ssa.Function, args []*Val, pos token.Pos) *Val {
		x.trusted["A-CODEC"] = true
		ri := x.regexOf(args[0])
		x.job.regexUsed[ri.Name] = ri
		s := args[1].T
		n, cls, aS, aE, err := classifyGroups(ri.Pattern)
		if err != nil {
			unsupportedf("bad pattern %q", ri.Pattern)
		}
		matched := reMatched(ri, s)
		ref := x.allocRef(st)
		arr := ConstArr(arraySort(SInt, SStr), StrLit(""))
		var g0 *Term
		if aS && aE {
			g0 = s
		} else {
			g0 = reGroup(ri, s, 0)
			x.ctx.assume(st, And(Ge(strLen(g0), IntLit(0)), Le(strLen(g0), strLen(s)), Ge(strOff(g0), IntLit(0))))
		}
		arr = Store(arr, IntLit(0), g0)
		facts := []*Term{}
		for i := 1; i <= n; i++ {
			arr = Store(arr, IntLit(int64(i)), reGroup(ri, s, i))
			facts = append(facts, x.groupFacts(ri, s, i, cls[i]))
		}
		x.ctx.assume(st, Implies(matched, And(facts...)))
		x.ctx.hwrite(st, arrMapName(strT), arraySort(SInt, SStr), ref, arr)
		res := Ite(matched, mkSlice(ref, IntLit(0), IntLit(int64(n+1))), nilSlice)
		return &Val{T: res, Typ: callee.Signature.Results().At(0).Type()}
	}
	// FindAllStringSubmatch: some number of matches, each with one string per capture group plus the whole match.
	// Nothing is said about where in the text they lie (A-CODEC).
	prelude["regexp.(*Regexp).FindAllStringSubmatch"] = func(x *Exec, st *State, callee *ssa.Function, args []*Val, pos token.Pos) *Val {
		x.trusted["A-CODEC"] = true
		ri := x.regexOf(args[0])
		x.job.regexUsed[ri.Name] = ri
		n, _, _, _, err := classifyGroups(ri.Pattern)
		if err != nil {
			unsupportedf("bad pattern %q", ri.Pattern)
		}
		rt := callee.Signature.Results().At(0).Type()
		inner := rt.Underlying().(*types.Slice).Elem()
		ref := x.allocRef(st)
		cnt := Fresh("findall.n", SInt)
		arr := Fresh("findall.matches", arraySort(SInt, SSlice))
		x.ctx.hwrite(st, arrMapName(inner), arraySort(SInt, SSlice), ref, arr)
		k := BoundVar("k", SInt)
		mk := Select(arr, k)
		x.ctx.assume(st, And(Ge(cnt, IntLit(0)),
			Forall([]*Term{k}, Implies(And(Le(IntLit(0), k), Lt(k, cnt)),
				And(Eq(slLen(mk), IntLit(int64(n+1))), Ge(slOff(mk), IntLit(0)), Gt(slRef(mk), IntLit(0)), Lt(slRef(mk), st.alloc))), []*Term{Select(arr, k)})))
		return &Val{T: mkSlice(ref, IntLit(0), cnt), Typ: rt}
	}
	preludeEffects["regexp.(*Regexp).FindAllStringSubmatch"] = []effSpec{{arrMapName(types.NewSlice(strT)), arraySort(SInt, SSlice)}}
	preludeEffects["regexp.(*Regexp).FindStringSubmatch"] = []effSpec{{arrMapName(strT), arraySort(SInt, SStr)}}
	prelude["regexp.(*Regexp).FindString"] = func(x *Exec, st *State, callee *ssa.Function, args []*Val, pos token.Pos) *Val {
		x.trusted["A-CODEC"] = true
		ri := x.regexOf(args[0])
		x.job.regexUsed[ri.Name] = ri
		s := args[1].T
		if !x.findFacts(st, ri, s) {
			return x.unmodelled(st, callee, args)
		}
		lo, hi := reFindLo(ri, s), reFindHi(ri, s)
		return &Val{T: mkStr(strArr(s), Add(strOff(s), lo), Sub(hi, lo)), Typ: strT}
	}
	// ReplaceAllString for the one pattern  ^(.*?)\?+(.*)$  with a template "${1}" + X + "${2}" (X without `$`):
	// the first run of question marks is replaced by X; a text without question mark is returned unchanged.
	prelude["regexp.(*Regexp).ReplaceAllString"] = func(x *Exec, st *State, callee *ssa.Function, args []*Val, pos token.Pos) *Val {
		x.trusted["A-CODEC"] = true
		ri := x.regexOf(args[0])
		x.job.regexUsed[ri.Name] = ri
		src, repl := args[1].T, args[2].T
		parts := x.job.concatParts[repl.id]
		l0, ok0 := "", false
		l2, ok2 := "", false
		if len(parts) == 3 {
			l0, ok0 = literalOf(parts[0])
			l2, ok2 = literalOf(parts[2])
		}
		if ri.Pattern != `^(.*?)\?+(.*)$` || !ok0 || !ok2 || l0 != "${1}" || l2 != "${2}" {
			return x.unmodelled(st, callee, args)
		}
		X := parts[1]
		q, has := x.firstIndex(st, src, '?')
		n := x.runLen(st, src, q, '?')
		arr := UF("re.replq", arraySort(SInt, SInt), src, X)
		rl := Add(Sub(strLen(src), n), strLen(X))
		k1, k2, k3 := BoundVar("k", SInt), BoundVar("k", SInt), BoundVar("k", SInt)
		noDollar := Not(x.strContains(st, X, StrLit("$")).T)
		x.ctx.assumeGlobal(st, Implies(And(has, noDollar), And(
			Forall([]*Term{k1}, Implies(And(Le(IntLit(0), k1), Lt(k1, q)), Eq(Select(arr, k1), strAt(src, k1))), []*Term{Select(arr, k1)}),
			Forall([]*Term{k2}, Implies(And(Le(IntLit(0), k2), Lt(k2, strLen(X))), Eq(Select(arr, Add(q, k2)), strAt(X, k2))), []*Term{strAt(X, k2)}),
			Forall([]*Term{k3}, Implies(And(Le(Add(q, n), k3), Lt(k3, strLen(src))), Eq(Select(arr, Add(Sub(k3, n), strLen(X))), strAt(src, k3))), []*Term{strAt(src, k3)}))))
		fresh := x.freshVal(st, "replaceall", strT)
		return &Val{T: Ite(has, Ite(noDollar, mkStr(arr, IntLit(0), rl), fresh.T), src), Typ: strT}
	}
	prelude["regexp.(*Regexp).MatchString"] = func(x *Exec, st *State, callee *ssa.Function, args []*Val, pos token.Pos) *Val {
		x.trusted["A-CODEC"] = true
		ri := x.regexOf(args[0])
		x.job.regexUsed[ri.Name] = ri
		x.shapeFacts(st, ri, args[1].T)
		return &Val{T: reMatched(ri, args[1].T), Typ: boolT}
	}
	prelude["strconv.Atoi"] = func(x *Exec, st *State, callee *ssa.Function, args []*Val, pos token.Pos) *Val {
		x.trusted["A-CODEC"] = true
		s := args[0].T
		x.shortNumFacts(st, s)
		ok := UF("atoi.ok", SBool, s)
		val := UF("atoi.val", SInt, s)
		maxI, minI := IntLitStr(maxIntS), IntLitStr("-9223372036854775808")
		x.ctx.assumeGlobal(st, And(
			Implies(Eq(strLen(s), IntLit(0)), And(Not(ok), Eq(val, IntLit(0)))),
			Implies(strIsDigits(s), And(Eq(ok, Le(strNum(s), maxI)), Implies(ok, Eq(val, strNum(s))), Implies(Not(ok), Eq(val, maxI)))),
			Le(minI, val), Le(val, maxI),
			Implies(Not(ok), Or(Eq(val, IntLit(0)), Eq(val, maxI), Eq(val, minI)))))
		e := x.freshError(st, "strconv")
		return tuple2(callee.Signature.Results(), &Val{T: val, Typ: intT}, &Val{T: Ite(ok, nilIface, e), Typ: errT})
	}
	prelude["strconv.Itoa"] = func(x *Exec, st *State, callee *ssa.Function, args []*Val, pos token.Pos) *Val {
		x.trusted["A-CODEC"] = true
		return &Val{T: x.itoa(st, args[0].T), Typ: strT}
	}
	prelude["fmt.Sprintf"] = func(x *Exec, st *State, callee *ssa.Function, args []*Val, pos token.Pos) *Val {
		x.trusted["A-CODEC"] = true
		return x.sprintf(st, args, pos)
	}
	prelude["strings.Contains"] = func(x *Exec, st *State, callee *ssa.Function, args []*Val, pos token.Pos) *Val {
		return x.strContains(st, args[0].T, args[1].T)
	}
	prelude["strings.Count"] = func(x *Exec, st *State, callee *ssa.Function, args []*Val, pos token.Pos) *Val {
		x.trusted["A-STR"] = true
		s, sub := args[0].T, args[1].T
		r := UF("gs.count", SInt, s, sub)
		x.ctx.assumeGlobal(st, And(Ge(r, IntLit(0)), Eq(Gt(r, IntLit(0)), x.strContains(st, s, sub).T)))
		return &Val{T: r, Typ: intT}
	}
}

// strContains: strings.Contains(s, sub) as an uninterpreted predicate with its length facts and, for a one-byte sub,
// the exists / forall characterisation.
func (x *Exec) strContains(st *State, s, sub *Term) *Val {
	{
		x.trusted["A-STR"] = true
		r := UF("gs.contains", SBool, s, sub)
		if lit, ok := literalOf(s); ok {
			if lsub, ok2 := literalOf(sub); ok2 {
				return &Val{T: BoolLit(strings.Contains(lit, lsub)), Typ: boolT}
			}
		}
		x.ctx.assumeGlobal(st, And(Implies(r, Ge(strLen(s), strLen(sub))), Implies(Eq(strLen(sub), IntLit(0)), r)))
		if l, ok := literalOf(sub); ok && len(l) == 1 {
			// contains a single byte: exists / forall characterisation
			k := UF("gs.indexbyte", SInt, s, IntLit(int64(l[0])))
			x.ctx.assumeGlobal(st, Implies(r, And(Le(IntLit(0), k), Lt(k, strLen(s)), Eq(strAt(s, k), IntLit(int64(l[0]))))))
			j := BoundVar("j", SInt)
			x.ctx.assumeGlobal(st, Implies(Not(r), Forall([]*Term{j}, Implies(And(Le(IntLit(0), j), Lt(j, strLen(s))), Neq(strAt(s, j), IntLit(int64(l[0])))), []*Term{strAt(s, j)})))
		}
		return &Val{T: r, Typ: boolT}
	}
}

func init() {
	strT := types.Typ[types.String]
	_ = strT
	// strings.Replace(s, old, new, 1): the first occurrence of old (position i) is replaced; s itself when there is none.
	prelude["strings.Replace"] = func(x *Exec, st *State, callee *ssa.Function, args []*Val, pos token.Pos) *Val {
		x.trusted["A-STR"] = true
		n, okN := args[3].T.intVal()
		if !okN || n != 1 {
			return x.freshVal(st, "strings.Replace", strT)
		}
		s, o, nw := args[0].T, args[1].T, args[2].T
		i := UF("gs.index", SInt, s, o)
		has := Ge(i, IntLit(0))
		occurs := func(j *Term, kk *Term) *Term { return Eq(strAt(s, Add(j, kk)), strAt(o, kk)) }
		k := BoundVar("k", SInt)
		j := BoundVar("j", SInt)
		mism := func(jj *Term) *Term { return UF("gs.mismatch", SInt, s, o, jj) }
		x.ctx.assumeGlobal(st, And(Le(IntLit(-1), i), Le(Add(i, strLen(o)), strLen(s)),
			Implies(Eq(strLen(o), IntLit(0)), Eq(i, IntLit(0))),
			Implies(has, Forall([]*Term{k}, Implies(And(Le(IntLit(0), k), Lt(k, strLen(o))), occurs(i, k)), []*Term{strAt(o, k)})),
			// no occurrence before i (before the end, when there is none): position j differs from old at mismatch(j)
			Forall([]*Term{j}, Implies(And(Le(IntLit(0), j), Lt(j, Ite(has, i, Add(Sub(strLen(s), strLen(o)), IntLit(1))))),
				And(Le(IntLit(0), mism(j)), Lt(mism(j), strLen(o)), Not(occurs(j, mism(j))))), []*Term{mism(j)})))
		arr := UF("gs.replace1", arraySort(SInt, SInt), s, o, nw)
		rl := Add(Sub(strLen(s), strLen(o)), strLen(nw))
		r := mkStr(arr, IntLit(0), rl)
		k1, k2, k3 := BoundVar("k", SInt), BoundVar("k", SInt), BoundVar("k", SInt)
		x.ctx.assumeGlobal(st, Implies(has, And(
			Forall([]*Term{k1}, Implies(And(Le(IntLit(0), k1), Lt(k1, i)), Eq(Select(arr, k1), strAt(s, k1))), []*Term{Select(arr, k1)}),
			Forall([]*Term{k2}, Implies(And(Le(IntLit(0), k2), Lt(k2, strLen(nw))), Eq(Select(arr, Add(i, k2)), strAt(nw, k2))), []*Term{strAt(nw, k2)}),
			Forall([]*Term{k3}, Implies(And(Le(Add(i, strLen(o)), k3), Lt(k3, strLen(s))), Eq(Select(arr, Add(Sub(k3, strLen(o)), strLen(nw))), strAt(s, k3))), []*Term{strAt(s, k3)}))))
		return &Val{T: Ite(has, r, s), Typ: strT}
	}
	for _, nm := range []string{"strings.ReplaceAll", "strings.ToUpper", "strings.TrimSpace", "strings.Join"} {
		nm := nm
		prelude[nm] = func(x *Exec, st *State, callee *ssa.Function, args []*Val, pos token.Pos) *Val {
			x.trusted["A-STR"] = true
			return x.freshVal(st, nm, strT)
		}
	}
	prelude["strings.ToLower"] = func(x *Exec, st *State, callee *ssa.Function, args []*Val, pos token.Pos) *Val {
		x.trusted["A-STR"] = true
		if l, ok := literalOf(args[0].T); ok {
			return &Val{T: StrLit(strings.ToLower(l)), Typ: strT}
		}
		r := UF("gs.tolower", SStr, args[0].T)
		x.ctx.assumeGlobal(st, And(Ge(strLen(r), IntLit(0)), Ge(strOff(r), IntLit(0)), Eq(Eq(strLen(r), IntLit(0)), Eq(strLen(args[0].T), IntLit(0)))))
		return &Val{T: r, Typ: strT}
	}
	prelude["strings.TrimSuffix"] = func(x *Exec, st *State, callee *ssa.Function, args []*Val, pos token.Pos) *Val {
		x.trusted["A-STR"] = true
		s, suf := args[0].T, args[1].T
		has := x.hasSuffix(st, s, suf)
		return &Val{T: Ite(has, mkStr(strArr(s), strOff(s), Sub(strLen(s), strLen(suf))), s), Typ: strT}
	}
	// strings.Split(s, sep) with a one-byte separator: a fresh slice whose first two parts are pinned down
	// (everything before the first separator; then everything up to the second one, or the rest).
	prelude["strings.Split"] = func(x *Exec, st *State, callee *ssa.Function, args []*Val, pos token.Pos) *Val {
		x.trusted["A-STR"] = true
		s := args[0].T
		rt := callee.Signature.Results().At(0).Type()
		sep, ok := literalOf(args[1].T)
		ref := x.allocRef(st)
		n := Fresh("split.n", SInt)
		arr := Fresh("split.parts", arraySort(SInt, SStr))
		x.ctx.hwrite(st, arrMapName(strT), arraySort(SInt, SStr), ref, arr)
		x.ctx.assume(st, Ge(n, IntLit(1)))
		if ok && len(sep) == 1 {
			c := int64(sep[0])
			i0, has0 := x.firstIndex(st, s, c)
			rest := mkStr(strArr(s), Add(strOff(s), Add(i0, IntLit(1))), Sub(strLen(s), Add(i0, IntLit(1))))
			i1, has1 := x.firstIndex(st, rest, c)
			p0 := Select(arr, IntLit(0))
			p1 := Select(arr, IntLit(1))
			x.ctx.assume(st, And(
				Implies(Not(has0), And(Eq(n, IntLit(1)), Eq(p0, s))),
				Implies(has0, And(Ge(n, IntLit(2)), Eq(p0, mkStr(strArr(s), strOff(s), i0)))),
				Implies(And(has0, Not(has1)), And(Eq(n, IntLit(2)), Eq(p1, rest))),
				Implies(And(has0, has1), And(Ge(n, IntLit(3)), Eq(p1, mkStr(strArr(rest), strOff(rest), i1))))))
		}
		return &Val{T: mkSlice(ref, IntLit(0), n), Typ: rt}
	}
	preludeEffects["strings.Split"] = []effSpec{{arrMapName(strT), arraySort(SInt, SStr)}}
	prelude["strings.TrimPrefix"] = func(x *Exec, st *State, callee *ssa.Function, args []*Val, pos token.Pos) *Val {
		x.trusted["A-STR"] = true
		s, pre := args[0].T, args[1].T
		has := x.hasPrefix(st, s, pre)
		return &Val{T: Ite(has, mkStr(strArr(s), Add(strOff(s), strLen(pre)), Sub(strLen(s), strLen(pre))), s), Typ: strT}
	}
	for _, name := range []string{"strings.Trim", "strings.TrimLeft", "strings.TrimRight"} {
		name := name
		prelude[name] = func(x *Exec, st *State, callee *ssa.Function, args []*Val, pos token.Pos) *Val {
			x.trusted["A-STR"] = true
			s := args[0].T
			// result is a substring s[a:b]
			a := UF(name+".lo", SInt, s, args[1].T)
			b := UF(name+".hi", SInt, s, args[1].T)
			x.ctx.assumeGlobal(st, And(Le(IntLit(0), a), Le(a, b), Le(b, strLen(s))))
			if name == "strings.TrimLeft" {
				x.ctx.assumeGlobal(st, Eq(b, strLen(s)))
			}
			if name == "strings.TrimRight" {
				x.ctx.assumeGlobal(st, Eq(a, IntLit(0)))
			}
			if l, ok := literalOf(args[1].T); ok && len(l) == 1 {
				c := IntLit(int64(l[0]))
				// nothing trimmable remains at the trimmed ends; everything trimmed was in the cutset
				if name != "strings.TrimRight" {
					x.ctx.assumeGlobal(st, Implies(Lt(a, b), Neq(strAt(s, a), c)))
					j := BoundVar("j", SInt)
					x.ctx.assumeGlobal(st, Forall([]*Term{j}, Implies(And(Le(IntLit(0), j), Lt(j, a)), Eq(strAt(s, j), c)), []*Term{strAt(s, j)}))
				}
				if name != "strings.TrimLeft" {
					x.ctx.assumeGlobal(st, Implies(Lt(a, b), Neq(strAt(s, Sub(b, IntLit(1))), c)))
					j := BoundVar("j", SInt)
					x.ctx.assumeGlobal(st, Forall([]*Term{j}, Implies(And(Le(b, j), Lt(j, strLen(s))), Eq(strAt(s, j), c)), []*Term{strAt(s, j)}))
				}
			}
			return &Val{T: mkStr(strArr(s), Add(strOff(s), a), Sub(b, a)), Typ: strT}
		}
	}
}

// itoa: decimal representation of an integer.
func (x *Exec) itoa(st *State, n *Term) *Term {
	if v, ok := n.intVal(); ok {
		return StrLit(fmt.Sprintf("%d", v))
	}
	r := UF("int.itoa", SStr, n)
	x.ctx.assumeGlobal(st, And(Ge(strLen(r), IntLit(1)), Ge(strOff(r), IntLit(0)),
		Implies(Ge(n, IntLit(0)), And(strIsDigits(r), Eq(strNum(r), n))),
		Implies(And(Ge(n, IntLit(0)), Lt(n, IntLit(10))), Eq(strLen(r), IntLit(1))),
		Implies(And(Ge(n, IntLit(10)), Lt(n, IntLit(100))), Eq(strLen(r), IntLit(2)))))
	return r
}

// sprintf with a literal format: concatenation of literal pieces and formatted arguments.
func (x *Exec) sprintf(st *State, args []*Val, pos token.Pos) *Val {
	strT := types.Typ[types.String]
	format, ok := literalOf(args[0].T)
	if !ok {
		// a computed format string: the result is some string (Sprintf itself never fails)
		r := x.freshVal(st, "sprintf", strT)
		return r
	}
	// variadic slice of `any`
	va := args[1]
	n, ok := slLen(va.T).intVal()
	if !ok {
		unsupportedf("fmt.Sprintf with unknown number of arguments")
	}
	anyT := va.Typ.Underlying().(*types.Slice).Elem()
	var elems []*Term
	for i := int64(0); i < n; i++ {
		elems = append(elems, x.readElem(st, anyT, va.T, IntLit(i)))
	}
	out := StrLit("")
	argi := 0
	i := 0
	lit := ""
	var pieces []fmtPiece
	flush := func() {
		if lit != "" {
			out = x.strConcat(st, out, StrLit(lit))
			pieces = append(pieces, fmtPiece{lit: lit})
			lit = ""
		}
	}
	for i < len(format) {
		c := format[i]
		if c != '%' {
			lit += string(c)
			i++
			continue
		}
		j := i + 1
		for j < len(format) && strings.IndexByte("0123456789+-# .", format[j]) >= 0 {
			j++
		}
		if j >= len(format) {
			unsupportedf("bad format %q", format)
		}
		verb := format[j]
		flags := format[i+1 : j]
		i = j + 1
		if verb == '%' {
			lit += "%"
			continue
		}
		if argi >= len(elems) {
			unsupportedf("format %q: too few arguments", format)
		}
		a := elems[argi]
		argi++
		flush()
		var piece *Term
		switch verb {
		case 's':
			piece = x.unbox(ifRef(a), strT)
			x.assumeType(st, piece, strT)
			pieces = append(pieces, fmtPiece{verb: 's', flags: flags, str: piece, arg: piece})
		case 'd':
			v := x.unbox(ifRef(a), intT)
			piece = x.fmtInt(st, v, flags)
			pieces = append(pieces, fmtPiece{verb: 'd', flags: flags, str: piece, arg: v})
		default:
			piece = UF("fmt.verb."+string(verb)+"."+sanitize(flags), SStr, a)
			x.assumeType(st, piece, strT)
			pieces = append(pieces, fmtPiece{verb: verb, flags: flags, str: piece, arg: piece})
		}
		out = x.strConcat(st, out, piece)
	}
	flush()
	x.alignWithPatterns(st, format, pieces, out)
	return &Val{T: out, Typ: strT}
}

type fmtPiece struct {
	lit   string // literal text (verb == 0)
	verb  byte   // 's' or 'd'
	flags string
	str   *Term // formatted piece
	arg   *Term // the argument (Str for %s, Int for %d)
}

// alignWithPatterns: A-CODEC, formatting half. If the format string lines up with one of the package's anchored
// patterns (literal text against literal text, each verb against one capture group), then under the side conditions
// that each argument lies in its group's language the result matches the pattern and the groups are the pieces.
func (x *Exec) alignWithPatterns(st *State, format string, pieces []fmtPiece, out *Term) {
	for key, init := range x.prog.globInit {
		pat, ok := patternOfInit(init)
		if !ok {
			continue
		}
		re, err := syntax.Parse(pat, syntax.Perl)
		if err != nil || re.Op != syntax.OpConcat {
			continue
		}
		subs := re.Sub
		if len(subs) < 2 || subs[0].Op != syntax.OpBeginText || subs[len(subs)-1].Op != syntax.OpEndText {
			continue
		}
		subs = subs[1 : len(subs)-1]
		ri := &RegexInfo{Name: key, Pattern: pat}
		var conds []*Term
		var eqs []*Term
		pi := 0
		okAlign := true
		// merge adjacent literal pieces
		var ps []fmtPiece
		for _, p := range pieces {
			if p.verb == 0 && len(ps) > 0 && ps[len(ps)-1].verb == 0 {
				ps[len(ps)-1].lit += p.lit
			} else {
				ps = append(ps, p)
			}
		}
		for _, el := range subs {
			if pi >= len(ps) {
				okAlign = false
				break
			}
			p := ps[pi]
			switch {
			case el.Op == syntax.OpLiteral:
				if p.verb != 0 || p.lit != string(el.Rune) {
					okAlign = false
				}
				pi++
			case el.Op == syntax.OpCharClass && p.verb == 's':
				// a separator class such as [-/] filled by a %s argument
				var alts []*Term
				for i := 0; i+1 < len(el.Rune); i += 2 {
					for c := el.Rune[i]; c <= el.Rune[i+1] && len(alts) < 8; c++ {
						alts = append(alts, strEqLit(p.arg, string(c)))
					}
				}
				conds = append(conds, Or(alts...))
				pi++
			case el.Op == syntax.OpCapture || (el.Op == syntax.OpQuest && el.Sub[0].Op == syntax.OpCapture):
				optional := el.Op == syntax.OpQuest
				cap := el
				if optional {
					cap = el.Sub[0]
				}
				gc := &groupClass{optional: optional}
				classifyBody(cap.Sub[0], gc)
				g := reGroup(ri, out, cap.Cap)
				switch {
				case p.verb == 's' && gc.lits != nil:
					var alts []*Term
					if optional {
						alts = append(alts, strEqLit(p.arg, ""))
					}
					for _, l := range gc.lits {
						alts = append(alts, strEqLit(p.arg, l))
					}
					conds = append(conds, Or(alts...))
					eqs = append(eqs, x.strEqual(st, g, p.arg))
				case p.verb == 'd' && gc.digits && !optional:
					// the number must print with a digit count inside the group's bounds
					lo, hi := gc.min, gc.max
					width := 0
					fmt.Sscanf(strings.TrimLeft(p.flags, "0"), "%d", &width)
					if strings.HasPrefix(p.flags, "0") && width > lo {
						lo = width
					}
					c := Ge(p.arg, IntLit(0))
					if hi >= 0 && hi <= 18 {
						c = And(c, Lt(p.arg, pow10(hi)))
					}
					if width < lo && lo > 1 {
						c = And(c, Ge(p.arg, pow10(lo-1)))
					}
					conds = append(conds, c)
					eqs = append(eqs, And(strIsDigits(g), Eq(strNum(g), p.arg)))
				default:
					okAlign = false
				}
				pi++
			default:
				okAlign = false
			}
			if !okAlign {
				break
			}
		}
		if !okAlign || pi != len(ps) {
			continue
		}
		x.trusted["A-CODEC"] = true
		x.job.regexUsed[ri.Name] = ri
		x.ctx.assume(st, Implies(And(conds...), And(append([]*Term{reMatched(ri, out)}, eqs...)...)))
	}
}

func (x *Exec) fmtInt(st *State, v *Term, flags string) *Term {
	if flags == "" {
		return x.itoa(st, v)
	}
	r := UF("fmt.d."+sanitize(flags), SStr, v)
	width := 0
	fmt.Sscanf(strings.TrimLeft(flags, "0"), "%d", &width)
	x.ctx.assumeGlobal(st, And(Ge(strLen(r), IntLit(int64(width))), Ge(strOff(r), IntLit(0)),
		Implies(Ge(v, IntLit(0)), And(strIsDigits(r), Eq(strNum(r), v))),
		Implies(And(Ge(v, IntLit(0)), Lt(v, pow10(width))), Eq(strLen(r), IntLit(int64(width))))))
	return r
}

func init() {
	// spec-level access to the codec abstraction
	specBuiltins["matches"] = func(ev *evaluator, args []*Val) *Val {
		ri := ev.x.regexOf(args[0])
		if !hasFreeBound(args[1].T) {
			ev.own()
			ev.x.shapeFacts(ev.st, ri, args[1].T)
		}
		return &Val{T: reMatched(ri, args[1].T), Typ: boolT}
	}
	specBuiltins["group"] = func(ev *evaluator, args []*Val) *Val {
		ri := ev.x.regexOf(args[0])
		i, ok := args[2].T.intVal()
		if !ok {
			ev.errorf("group index must be a literal")
		}
		return &Val{T: reGroup(ri, args[1].T, int(i)), Typ: types.Typ[types.String]}
	}
	specBuiltins["runelen"] = func(ev *evaluator, args []*Val) *Val {
		s := args[0].T
		if l, ok := literalOf(s); ok {
			return &Val{T: IntLit(int64(len([]rune(l)))), Typ: intT}
		}
		cnt := UF("gs.runecount", SInt, s)
		ev.x.ctx.assumeGlobal(ev.st, And(Ge(cnt, IntLit(0)), Le(cnt, strLen(s)), Implies(Gt(strLen(s), IntLit(0)), Gt(cnt, IntLit(0))), Le(strLen(s), Mul(IntLit(4), cnt))))
		return &Val{T: cnt, Typ: intT}
	}
	specBuiltins["stroff"] = func(ev *evaluator, args []*Val) *Val {
		return &Val{T: strOff(args[0].T), Typ: intT}
	}
	// byteat(s, p): the byte at absolute position p of the array backing s (may lie outside s itself)
	specBuiltins["byteat"] = func(ev *evaluator, args []*Val) *Val {
		return &Val{T: Select(strArr(args[0].T), args[1].T), Typ: intT}
	}
	specBuiltins["samearr"] = func(ev *evaluator, args []*Val) *Val {
		return &Val{T: Eq(strArr(args[0].T), strArr(args[1].T)), Typ: boolT}
	}
	specBuiltins["ascii"] = func(ev *evaluator, args []*Val) *Val {
		if l, ok := literalOf(args[0].T); ok {
			return &Val{T: BoolLit(isASCII(l)), Typ: boolT}
		}
		return &Val{T: UF("gs.ascii", SBool, args[0].T), Typ: boolT}
	}
	// strcount / strcontains: the abstract results of strings.Count / strings.Contains (A-STR)
	specBuiltins["strcount"] = func(ev *evaluator, args []*Val) *Val {
		return &Val{T: UF("gs.count", SInt, args[0].T, args[1].T), Typ: intT}
	}
	specBuiltins["strcontains"] = func(ev *evaluator, args []*Val) *Val {
		if hasFreeBound(args[0].T) || hasFreeBound(args[1].T) {
			return &Val{T: UF("gs.contains", SBool, args[0].T, args[1].T), Typ: boolT}
		}
		ev.own()
		return ev.x.strContains(ev.st, args[0].T, args[1].T)
	}
	// tolower(s): the abstract result of strings.ToLower (A-STR)
	specBuiltins["tolower"] = func(ev *evaluator, args []*Val) *Val {
		if l, ok := literalOf(args[0].T); ok {
			return &Val{T: StrLit(strings.ToLower(l)), Typ: types.Typ[types.String]}
		}
		return &Val{T: UF("gs.tolower", SStr, args[0].T), Typ: types.Typ[types.String]}
	}
	// findlo / findhi(pattern, s): the bounds of the leftmost match that FindString returns (patterns  c (class)+ )
	specBuiltins["findlo"] = func(ev *evaluator, args []*Val) *Val {
		ri := ev.x.regexOf(args[0])
		ev.own()
		if !ev.x.findFacts(ev.st, ri, args[1].T) {
			ev.errorf("findlo: pattern %q is not of the form c(class)+", ri.Pattern)
		}
		return &Val{T: reFindLo(ri, args[1].T), Typ: intT}
	}
	specBuiltins["findhi"] = func(ev *evaluator, args []*Val) *Val {
		ri := ev.x.regexOf(args[0])
		ev.own()
		if !ev.x.findFacts(ev.st, ri, args[1].T) {
			ev.errorf("findhi: pattern %q is not of the form c(class)+", ri.Pattern)
		}
		return &Val{T: reFindHi(ri, args[1].T), Typ: intT}
	}
	// firstidx(s, c): the first position of byte c in s (len(s) if none); runlen(s, q, c): length of the run of c at q
	specBuiltins["firstidx"] = func(ev *evaluator, args []*Val) *Val {
		c, ok := args[1].T.intVal()
		if !ok {
			ev.errorf("firstidx needs a literal byte")
		}
		ev.own()
		i, _ := ev.x.firstIndex(ev.st, args[0].T, c)
		return &Val{T: i, Typ: intT}
	}
	specBuiltins["runlen"] = func(ev *evaluator, args []*Val) *Val {
		c, ok := args[2].T.intVal()
		if !ok {
			ev.errorf("runlen needs a literal byte")
		}
		ev.own()
		return &Val{T: ev.x.runLen(ev.st, args[0].T, args[1].T, c), Typ: intT}
	}
	specBuiltins["isdigits"] = func(ev *evaluator, args []*Val) *Val {
		return &Val{T: strIsDigits(args[0].T), Typ: boolT}
	}
	specBuiltins["num"] = func(ev *evaluator, args []*Val) *Val {
		if !hasFreeBound(args[0].T) {
			ev.own()
			ev.x.shortNumFacts(ev.st, args[0].T)
		}
		return &Val{T: strNum(args[0].T), Typ: intT}
	}
}
