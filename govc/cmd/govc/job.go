package main

// A Job verifies one function against its contract and produces obligations.

import (
	"fmt"
	"os"
	"runtime"
	"go/token"
	"go/types"
	"sort"
	"strings"

	"golang.org/x/tools/go/ssa"
)

type frameSpec struct {
	alloc0  *Term
	allowed map[string][]*Term
	any     map[string]bool
}

type Job struct {
	Name          string
	fn            *ssa.Function
	contract      *Contract
	frame         *frameSpec
	special       map[string]*Val
	globals       map[string]*Val
	nglob         int
	alloc0        *Term
	checkOverflow bool
	localRegex    []*RegexInfo
	regexUsed     map[string]*RegexInfo
	concatParts   map[int][]*Term

	Domains       []finiteDomain

	// results
	Obls       []*Obligation
	Facts      []*Term
	Inputs     []*InputSym
	Unmodelled []string
	Trusted    []string
	symMemo    map[int]map[string]bool
	skMemo     map[int][]string
	Err        string // unsupported construct / contract error
	GenSecs    float64
	Stats      string
}

func jobName(fn *ssa.Function) string {
	k := funcKey(fn)
	return strings.TrimPrefix(k, modulePath+"/")
}

func (p *Program) newJob(fn *ssa.Function) *Job {
	return &Job{Name: jobName(fn), fn: fn, contract: p.contractFor(fn), special: map[string]*Val{}, globals: map[string]*Val{}, regexUsed: map[string]*RegexInfo{}, concatParts: map[int][]*Term{}}
}

// newLemmaJob: a lemma is proved from the contracts of the functions it mentions (calls are by contract).
func (p *Program) newLemmaJob(c *Contract) *Job {
	name := strings.TrimPrefix(c.Pkg, modulePath+"/") + "." + c.Key
	return &Job{Name: name, contract: c, special: map[string]*Val{}, globals: map[string]*Val{}, regexUsed: map[string]*RegexInfo{}, concatParts: map[int][]*Term{}}
}

func (p *Program) generateLemma(j *Job, x *Exec) {
	c := j.contract
	pf := p.anyFuncOfPkg(c.Pkg)
	if pf == nil {
		unsupportedf("lemma %s: package has no function to resolve names in", c.Key)
	}
	st := &State{pc: True, heap: map[string]*HNode{}, alloc: Sym("alloc0", SInt)}
	j.alloc0 = st.alloc
	x.ctx.assumeGlobal(st, Ge(st.alloc, IntLit(1000)))
	fr := &Frame{fn: pf, env: map[ssa.Value]*Val{}, entry: st, lets: map[string]*Val{}, headerSt: map[*ssa.BasicBlock]*loopRt{}}
	fr.loops = p.loopsOf(pf)
	ev0 := &evaluator{x: x, fr: fr, st: st, lets: map[string]*Val{}}
	for _, prm := range c.Params {
		t := ev0.resolveTypeName(prm.Type)
		v := x.inputVal(st, "p."+prm.Name, t)
		fr.lets[prm.Name] = v
		x.inputs = append(x.inputs, &InputSym{Name: prm.Name, Val: v})
	}
	c.Bound = true
	fr.entry = st.clone()
	for _, r := range x.evalClauses(fr, st, c.clauses("requires", 0), nil, "requires") {
		x.ctx.assume(st, r.t)
	}
	x.obls = append(x.obls, &Obligation{Name: j.Name + "#pre-sat", Kind: "pre-sat", Job: j.Name, NFact: len(x.ctx.facts), PC: True, Goal: False, Note: "lemma hypotheses are satisfiable (expected: sat)"})
	// `use lemma(args)`: instances of other (separately proved) lemmas are hypotheses
	for _, r := range x.evalClauses(fr, st, c.clauses("use", 0), nil, "use") {
		x.ctx.assume(st, r.t)
	}
	fr.results = &Val{}
	for _, r := range x.evalClauses(fr, st, c.clauses("ensures", 0), nil, "ensures") {
		x.oblige(st, "ensures", r.t, token.NoPos, r.cl.Src)
	}
}

// generate runs the symbolic execution and fills in obligations.
func (p *Program) generate(j *Job) {
	x := &Exec{prog: p, ctx: newCtx(), job: j, counters: map[string]int{}, typed: map[[2]int]bool{}, unmod: map[string]bool{}, trusted: map[string]bool{}, qseen: map[[2]int]bool{}}
	defer func() {
		if r := recover(); r != nil {
			if u, ok := r.(unsupported); ok {
				j.Err = u.msg
			} else {
				buf := make([]byte, 4096)
				n := runtime.Stack(buf, false)
				j.Err = fmt.Sprintf("internal error: %v\n%s", r, buf[:n])
			}
		}
		j.Obls = x.obls
		j.Facts = x.ctx.facts
		j.Stats = fmt.Sprintf("%d quantified facts, %d index terms, %d instances", len(x.qfacts), len(x.interest), x.ninst)
		if os.Getenv("GOVC_DEBUG") != "" {
			for _, e := range x.interest {
				fmt.Fprintln(os.Stderr, "DEBUG interest", truncate(e.String(), 200))
			}
		}
		j.Inputs = x.inputs
		for k := range x.unmod {
			j.Unmodelled = append(j.Unmodelled, k)
		}
		sort.Strings(j.Unmodelled)
		for k := range x.trusted {
			j.Trusted = append(j.Trusted, k)
		}
		sort.Strings(j.Trusted)
	}()
	if j.contract != nil && j.contract.Lemma {
		p.generateLemma(j, x)
		return
	}
	fn := j.fn
	st := &State{pc: True, heap: map[string]*HNode{}, alloc: Sym("alloc0", SInt)}
	j.alloc0 = st.alloc
	x.ctx.assumeGlobal(st, Ge(st.alloc, IntLit(1000)))
	var args []*Val
	for i, prm := range fn.Params {
		v := x.inputVal(st, "p."+prm.Name(), prm.Type())
		args = append(args, v)
		x.inputs = append(x.inputs, &InputSym{Name: prm.Name(), Val: v})
		if i == 0 && fn.Signature.Recv() != nil && v.T != nil {
			if _, isPtr := prm.Type().Underlying().(*types.Pointer); isPtr {
				// A-RECV: methods are only reached through non-nil receivers
				x.trusted["A-RECV"] = true
				x.ctx.assume(st, Neq(v.T, IntLit(0)))
			}
		}
	}
	var free []*Val
	for _, fv := range fn.FreeVars {
		v := x.freeVarInput(st, fv)
		free = append(free, v)
		x.inputs = append(x.inputs, &InputSym{Name: "free." + fv.Name(), Val: v})
	}
	fr := x.newFrame(fn, args, free, st, nil)
	fr.isTop = true
	c := j.contract
	if c != nil {
		c.Bound = true
		for _, r := range x.evalClauses(fr, st, c.clauses("requires", 0), nil, "requires") {
			x.assumeFact(st, r.t)
		}
		// vacuity guard: the precondition must be satisfiable
		x.obls = append(x.obls, &Obligation{Name: j.Name + "#pre-sat", Kind: "pre-sat", Job: j.Name, NFact: len(x.ctx.facts), PC: True, Goal: False, Note: "precondition is satisfiable (expected: sat)"})
		// `use lemma(args)`: instances of separately proved lemmas are hypotheses of the body
		for _, r := range x.evalClauses(fr, st, c.clauses("use", 0), nil, "use") {
			x.assumeFact(st, r.t)
		}
		if !c.NoFrame {
			fs := &frameSpec{alloc0: st.alloc, allowed: map[string][]*Term{}, any: map[string]bool{}}
			ev := &evaluator{x: x, fr: fr, st: st, lets: map[string]*Val{}}
			for _, m := range c.Modifies {
				name, ref, all := ev.modTarget(m)
				if all {
					fs.any[name] = true
				} else {
					fs.allowed[name] = append(fs.allowed[name], ref)
				}
				for _, nm := range expandMod(name) {
					fs.allowed[nm] = append(fs.allowed[nm], ref)
				}
			}
			j.frame = fs
		}
	}
	fr.entry = st.clone()
	// witness classes of known findings for this function
	classes := map[string]*Term{}
	for _, f := range allFindings {
		if f.Status == "open" && f.Class != "" && strings.HasPrefix(f.Obligation, j.Name+"#") {
			e, err := parserParseExpr(f.Class)
			if err != nil {
				unsupportedf("known finding %s: cannot parse class %q", f.Obligation, f.Class)
			}
			ev := &evaluator{x: x, fr: fr, st: st, lets: map[string]*Val{}}
			classes[f.Obligation] = ev.eval(e).T
		}
	}
	defer func() {
		for _, o := range x.obls {
			if c, ok := classes[o.Name]; ok && o.Status == "" {
				x.obls = append(x.obls, &Obligation{Name: o.Name + "!outside-known-class", Kind: "known-excl", Job: o.Job, NFact: o.NFact,
					PC: And(o.PC, Not(c)), Goal: o.Goal, Pos: o.Pos, Note: o.Note})
			}
		}
		j.Obls = x.obls
	}()
	rv, rs := x.run(fr, st.clone())
	if rs == nil {
		return
	}
	// object invariants of the receiver and pointer parameters are re-established on exit
	for i, prm := range fn.Params {
		if i < len(args) && args[i].T != nil {
			if _, isPtr := prm.Type().Underlying().(*types.Pointer); isPtr {
				x.checkInv(rs, args[i], token.NoPos, "of parameter "+prm.Name()+" on exit")
			}
		}
	}
	// returned pointers carry their type invariant
	if rv != nil {
		rets := []*Val{rv}
		if rv.Tuple != nil {
			rets = rv.Tuple
		}
		for _, r := range rets {
			if r != nil && r.Typ != nil {
				if _, isPtr := r.Typ.Underlying().(*types.Pointer); isPtr && r.T != nil {
					x.checkInv(rs, r, token.NoPos, "when returned")
				}
			}
		}
	}
	if c != nil && c.Trusted {
		x.trusted["TRUSTED-CONTRACT "+j.Name] = true
		for _, cl := range c.Clauses {
			cl.Used = true
		}
	}
	if c != nil {
		for _, cl := range c.Clauses {
			if cl.Kind == "defines" {
				cl.Used = true
				x.trusted["DEFINITION by "+j.Name+": "+cl.Src] = true
			}
		}
	}
	if rs.pc != False {
		x.reachProbe(rs, "exit", "a return of the function is reachable under the assumptions (expected: sat)")
	}
	if c != nil && !c.Trusted {
		fr.results = rv
		for i, r := range x.evalClauses(fr, rs, c.clauses("ensures", 0), nil, "ensures") {
			_ = i
			x.oblige(rs, "ensures", r.t, token.NoPos, r.cl.Src)
		}
	}
}

// inputVal creates the symbolic value of a parameter.
func (x *Exec) inputVal(st *State, name string, t types.Type) *Val {
	if sig, ok := t.Underlying().(*types.Signature); ok {
		_ = sig
		v := x.freshVal(st, name, t)
		x.ctx.assume(st, Neq(v.T, IntLit(0))) // function parameters are assumed non-nil unless a contract says otherwise
		return v
	}
	if pt, ok := t.Underlying().(*types.Pointer); ok {
		if _, isStruct := pt.Elem().Underlying().(*types.Struct); !isStruct {
			// pointer to scalar: model as an anonymous cell
			ref := x.freshVal(st, name, t)
			return &Val{Typ: t, Ptr: &Pointer{kind: pkCell, ref: ref.T, objT: pt.Elem(), cell: "cell:param:" + name}}
		}
	}
	return x.freshVal(st, name, t)
}

// parentCell returns the symbolic location of a local variable of an enclosing function (an Alloc cell), as seen
// from a closure that is verified on its own: one fixed unknown reference per variable.
func (x *Exec) parentCell(st *State, a *ssa.Alloc) *Val {
	key := "pcell:" + cellName(a)
	if v, ok := x.job.globals[key]; ok {
		return v
	}
	t := a.Type()
	pt := t.Underlying().(*types.Pointer)
	ref := Sym("pcell."+sanitize(a.Parent().Name()+"#"+a.Comment+"."+a.Name()), SInt)
	x.ctx.assumeGlobal(st, And(Gt(ref, IntLit(0)), Lt(ref, x.job.alloc0)))
	var v *Val
	if _, isStruct := pt.Elem().Underlying().(*types.Struct); isStruct {
		v = &Val{T: ref, Typ: t}
	} else {
		v = &Val{Typ: t, Ptr: &Pointer{kind: pkCell, ref: ref, objT: pt.Elem(), cell: cellName(a)}}
		// a variable that holds a function literal assigned exactly once: the closure is known
		if _, isSig := pt.Elem().Underlying().(*types.Signature); isSig {
			if mc := uniqueClosureStore(a); mc != nil {
				clo := &Closure{Fn: mc.Fn.(*ssa.Function)}
				for _, b := range mc.Bindings {
					if ba, ok := b.(*ssa.Alloc); ok {
						clo.Bindings = append(clo.Bindings, x.parentCell(st, ba))
					} else {
						clo = nil
						break
					}
				}
				if clo != nil {
					x.job.special[fmt.Sprintf("%s@%d", cellName(a), ref.id)] = &Val{Typ: pt.Elem(), Clo: clo}
				}
			}
		}
	}
	x.job.globals[key] = v
	return v
}

func uniqueClosureStore(a *ssa.Alloc) *ssa.MakeClosure {
	var found *ssa.MakeClosure
	n := 0
	for _, ref := range *a.Referrers() {
		if st, ok := ref.(*ssa.Store); ok && st.Addr == ssa.Value(a) {
			n++
			if mc, ok := st.Val.(*ssa.MakeClosure); ok {
				found = mc
			}
		}
	}
	if n == 1 {
		return found
	}
	return nil
}

func (x *Exec) freeVarInput(st *State, fv *ssa.FreeVar) *Val {
	if a := x.prog.resolveFreeVar(fv); a != nil {
		return x.parentCell(st, a)
	}
	t := fv.Type()
	pt := t.Underlying().(*types.Pointer)
	if _, isStruct := pt.Elem().Underlying().(*types.Struct); isStruct {
		v := x.freshVal(st, "free."+fv.Name(), t)
		x.ctx.assume(st, Neq(v.T, IntLit(0))) // a captured variable always exists
		return v
	}
	name := "cell:free:" + fv.Name()
	ref := x.freshVal(st, "free."+fv.Name(), t)
	x.ctx.assume(st, Neq(ref.T, IntLit(0)))
	return &Val{Typ: t, Ptr: &Pointer{kind: pkCell, ref: ref.T, objT: pt.Elem(), cell: name}}
}

// exclOf returns the companion obligation "o fails outside the known witness class", if any.
func (j *Job) exclOf(o *Obligation) *Obligation {
	for _, e := range j.Obls {
		if e.Kind == "known-excl" && e.Name == o.Name+"!outside-known-class" {
			return e
		}
	}
	return nil
}

func (j *Job) summary() string {
	n, ok := 0, 0
	for _, o := range j.Obls {
		if o.Kind == "pre-sat" {
			continue
		}
		n++
		if o.Status == "proved" {
			ok++
		}
	}
	return fmt.Sprintf("%s: %d/%d", j.Name, ok, n)
}

type finiteDomain struct {
	t    *Term
	vals []int64
}

func (j *Job) addDomain(t *Term, vals []int64) {
	for _, d := range j.Domains {
		if d.t == t {
			return
		}
	}
	j.Domains = append(j.Domains, finiteDomain{t, vals})
}
