package main

// Symbolic execution of go/ssa functions with state merging, loop cut points and calls by contract.

import (
	"strconv"
	"fmt"
	"os"
	"go/ast"
	"go/token"
	"go/types"
	"strings"

	"golang.org/x/tools/go/ssa"
)

type Obligation struct {
	Name   string
	Kind   string
	Job    string
	NFact  int
	PC     *Term
	Goal   *Term
	Pos    string
	Note   string
	Status string // proved, failed, unknown
	Solver string
	Secs   float64
	Model  map[string]string
	Conj   []bool
	Output string
	Group  string // reachability probes (Kind pre-sat): the group is vacuous only if every member is unsatisfiable
}

type unsupported struct{ msg string }

func unsupportedf(format string, a ...any) {
	panic(unsupported{fmt.Sprintf(format, a...)})
}

type Exec struct {
	prog      *Program
	ctx       *Ctx
	job       *Job
	obls      []*Obligation
	counters  map[string]int
	typed     map[[2]int]bool
	unmod     map[string]bool // unmodelled calls encountered
	trusted   map[string]bool // assumption ids used
	depth     int
	pure      int // >0 while evaluating contract expressions: no obligations are emitted
	inputs    []*InputSym
	callStack []string
	finite    map[int][]int64
	atDeclared map[string]bool
	siteStack []token.Pos
	boundOf   map[int]*Term
	sumDefs   map[string]*sumDef
	sumVars   map[string]*Term
	qfacts    []*qfact
	qseen     map[[2]int]bool
	interest  []*Term
	interestSeen map[int]bool
	interestSorts map[int]map[string]bool
	ninst     int
	skNest    int
	absReads  []absRead
	instSeen  map[[3]int]bool
	sumBySrc  map[string][]string
	nlinks    int
	inInst    int
	atWitness int
	idxElemSort map[int]map[string]bool
	canonStrs []canonStr // strings used inside map keys, with their canonical representatives
	fnConsts  []fnConst  // closures that were stored as terms
	witnessArrs map[int]map[int]bool // witness constant -> array terms its existential reads
}

type InputSym struct {
	Name string
	Val  *Val
}

type Frame struct {
	fn       *ssa.Function
	env      map[ssa.Value]*Val
	freeVars []*Val
	params   []*Val
	entry    *State
	contract *Contract
	isTop    bool
	loops    *loopInfo
	caller   *Frame
	results  *Val // set when evaluating ensures
	lets     map[string]*Val
	headerSt map[*ssa.BasicBlock]*loopRt
	suffix   string
}

type loopRt struct {
	variant []*Term
	st      *State
}

func (x *Exec) oblName(kind string) string {
	x.counters[kind]++
	return fmt.Sprintf("%s#%s:%d", x.job.Name, kind, x.counters[kind])
}

// oblige records a proof obligation: under the state's pc (and facts), goal holds.
// After recording, the goal is assumed (the failure is reported once).
func (x *Exec) oblige(st *State, kind string, goal *Term, pos token.Pos, note string) {
	if x.pure > 0 {
		return
	}
	if st.pc == False {
		return
	}
	if x.job.fn != nil && x.cutsOnly() && !strings.HasPrefix(kind, "assert(before ") && !strings.HasPrefix(kind, "inv-") && kind != "ensures" {
		// a function checked for its cuts only: its other proof obligations (run-time safety, callees' preconditions,
		// frame) are not generated here; executions on which they fail are outside what the cuts speak about
		x.trusted["CUTS-ONLY "+x.job.Name+": only the `before` cuts, loop invariants and postconditions are decided; run-time safety and callee preconditions inside this function are assumed"] = true
		x.assumeFact(st, goal)
		return
	}
	name := x.oblName(kind)
	orig := goal
	goal = x.skolemize(st, goal, 0)
	if goal != orig {
		// the element reads of the skolemised goal are ground now: link them to the arrays and type them
		x.linkAtTerms(goal)
		x.typeReadsIn(st, goal)
		x.interestFromGoal(st, goal)
		x.unfoldSumsIn(st, goal)
	}
	posStr := posOf(x.prog.fset, pos)
	// inlined callees: report the chain of call sites, outermost first
	if len(x.siteStack) > 0 {
		var chain []string
		for _, sp := range x.siteStack {
			if p := posOf(x.prog.fset, sp); p != "" {
				chain = append(chain, p)
			}
		}
		if posStr != "" {
			chain = append(chain, posStr)
		}
		posStr = strings.Join(chain, " > ")
	}
	if goal != True {
		x.obls = append(x.obls, &Obligation{Name: name, Kind: kind, Job: x.job.Name, NFact: len(x.ctx.facts), PC: st.pc, Goal: goal,
			Pos: posStr, Note: note})
	} else {
		x.obls = append(x.obls, &Obligation{Name: name, Kind: kind, Job: x.job.Name, NFact: len(x.ctx.facts), PC: st.pc, Goal: goal,
			Pos: posStr, Note: note, Status: "proved", Solver: "trivial"})
	}
	x.assumeFact(st, orig)
}

// assertsBefore evaluates the `before <callee> assert` clauses of the function under verification at a call of <callee>
// in its own body (not in inlined callees).
func (x *Exec) assertsBefore(fr *Frame, st *State, in *ssa.Call) {
	if fr.contract == nil || fr.caller != nil || x.pure > 0 {
		return
	}
	name := cutCallName(fr.contract, in)
	if name == "" {
		return
	}
	ord := callOrdinal(fr.contract, in, name)
	// arg0, arg1, ...: the actual arguments of the call (for an invoked method: after the receiver)
	argLets := map[string]*Val{}
	for i, a := range in.Call.Args {
		argLets[fmt.Sprintf("arg%d", i)] = x.get(fr, a)
	}
	saved := map[string]*Val{}
	for k, v := range argLets {
		if old, ok := fr.lets[k]; ok {
			saved[k] = old
		}
		fr.lets[k] = v
	}
	defer func() {
		for k := range argLets {
			delete(fr.lets, k)
		}
		for k, v := range saved {
			fr.lets[k] = v
		}
	}()
	for _, cl := range fr.contract.Clauses {
		if cl.Kind == "bind" && cutMatches(cl.Name, name, ord) {
			cl.Used = true
			ev := &evaluator{x: x, fr: fr, st: st, lets: map[string]*Val{}, lazy: map[string]ast.Expr{}, blk: in.Block(), midBlock: true}
			for k, v := range fr.lets {
				ev.lets[k] = v
			}
			if strings.TrimSpace(cl.Src) == "true" {
				// a flag: true on exactly the executions that pass through a call addressed by the clause (the path
				// condition here), false elsewhere - path-sensitive, unlike a bound value
				prev := False
				if old, ok := fr.lets[cl.Bind]; ok && old.T != nil {
					prev = old.T
				}
				fr.lets[cl.Bind] = &Val{T: Or(prev, st.pc), Typ: boolT}
				continue
			}
			v := ev.eval(cl.Expr)
			fr.lets[cl.Bind] = v
		}
	}
	var cls []*Clause
	for _, cl := range fr.contract.Clauses {
		if cl.Kind == "assert" && cutMatches(cl.Name, name, ord) {
			// a value bound at another call that has not happened on the way here: the cut fails (rather than the
			// contract being reported as ill-formed)
			if nb := x.unboundBind(fr, cl); nb != "" {
				cl.Used = true
				x.oblige(st, "assert(before "+name+")", x.freshVal(st, "unbound."+nb, boolT).T, in.Pos(), cl.Src+"   [`"+nb+"` is bound at a call that has not been made before this point]")
				continue
			}
			cls = append(cls, cl)
		} else if cl.Kind == "let" && cl.Loop == 0 {
			cls = append(cls, cl)
		}
	}
	has := false
	for _, cl := range cls {
		if cl.Kind == "assert" {
			has = true
		}
	}
	if !has {
		return
	}
	for _, r := range x.evalClausesAt(fr, st, cls, nil, "assert", in.Block()) {
		x.oblige(st, "assert(before "+name+")", r.t, in.Pos(), r.cl.Src)
	}
}

// reachProbe records a satisfiability probe: the facts assumed so far together with the path condition must not be
// contradictory. If every probe of a group (all exits of the function, all back edges of a loop) is unsatisfiable,
// the obligations there were discharged vacuously - by inconsistent assumptions or a contradictory contract.
func (x *Exec) reachProbe(st *State, group, note string) {
	if x.pure > 0 {
		return
	}
	x.counters["reach:"+group]++
	x.obls = append(x.obls, &Obligation{Name: fmt.Sprintf("%s#reach(%s):%d", x.job.Name, group, x.counters["reach:"+group]), Kind: "pre-sat", Group: group,
		Job: x.job.Name, NFact: len(x.ctx.facts), PC: st.pc, Goal: False, Note: note})
}

// assumeFact assumes a contract-level fact and registers its quantified parts for instantiation.
func (x *Exec) assumeFact(st *State, t *Term) {
	x.ctx.assume(st, t)
	x.registerFacts(st, t, st.pc, 0)
}

// ---------- typing assumptions ----------

func (x *Exec) assumeType(st *State, v *Term, t types.Type) {
	x.assumeTypeB(st, v, t, st.alloc)
}

// assumeTypeB: typing facts of v where every reference inside v is known to be below `bound`.
func (x *Exec) assumeTypeB(st *State, v *Term, t types.Type, bound *Term) {
	if x.boundOf == nil {
		x.boundOf = map[int]*Term{}
	}
	if old, ok := x.boundOf[v.id]; !ok {
		x.boundOf[v.id] = bound
	} else {
		_ = old
	}
	key := [2]int{v.id, bound.id}
	if x.typed[key] {
		return
	}
	x.typed[key] = true
	if f := x.typeFact(&State{alloc: bound}, v, t, 0); f != True {
		x.ctx.assume(st, f)
	}
	if _, isPtr := t.Underlying().(*types.Pointer); isPtr && !isAllocTerm(v) {
		if inv := x.typeInv(st, &Val{T: v, Typ: t}); inv != True {
			x.trusted["A-INV"] = true
			x.assumeFact(st, Implies(Neq(v, IntLit(0)), inv))
		}
	}
	// a struct value of a named type with a declared invariant (period.Quarter{date})
	if _, isStruct := t.Underlying().(*types.Struct); isStruct {
		if _, isNamed := t.(*types.Named); isNamed && !isCtor(v) {
			if inv := x.typeInv(st, &Val{T: v, Typ: t}); inv != True {
				x.trusted["A-INV"] = true
				x.assumeFact(st, inv)
			}
		}
	}
}

// bnd returns the allocation bound known for the references inside v (the program point that supplied v).
func (x *Exec) bnd(st *State, v *Term) *Term {
	if b, ok := x.boundOf[v.id]; ok {
		return b
	}
	return st.alloc
}

// typeInv evaluates the declared invariants of v's type (pointer to struct, or struct value) in state st.
func (x *Exec) typeInv(st *State, v *Val) *Term {
	cls := x.prog.typeInvariants(v.Typ)
	if len(cls) == 0 {
		return True
	}
	t := v.Typ
	if pt, ok := t.(*types.Pointer); ok {
		t = pt.Elem()
	}
	n := t.(*types.Named)
	pf := x.prog.anyFuncOfPkg(n.Obj().Pkg().Path())
	if pf == nil {
		unsupportedf("type invariant for %s: package has no function to resolve names in", t)
	}
	fr := &Frame{fn: pf, env: map[ssa.Value]*Val{}, entry: st, lets: map[string]*Val{}}
	ev := &evaluator{x: x, fr: fr, st: st, lets: map[string]*Val{"self": v}}
	out := True
	for _, cl := range cls {
		cl.Used = true
		r := ev.eval(cl.Expr)
		out = And(out, r.T)
	}
	x.noteFiniteDomain(out)
	return out
}

// noteFiniteDomain recognises invariants of the form t == c1 || t == c2 || ... and remembers the domain of t.
func (x *Exec) noteFiniteDomain(inv *Term) {
	if inv.op != "or" {
		return
	}
	var subj *Term
	var vals []int64
	for _, d := range inv.args {
		if d.op != "=" {
			return
		}
		a, b := d.args[0], d.args[1]
		if _, ok := a.intVal(); ok {
			a, b = b, a
		}
		c, ok := b.intVal()
		if !ok {
			return
		}
		if subj != nil && subj != a {
			return
		}
		subj = a
		vals = append(vals, c)
	}
	if subj != nil && len(vals) <= 16 {
		if x.finite == nil {
			x.finite = map[int][]int64{}
		}
		x.finite[subj.id] = vals
	}
}

// divBy applies a division-like operator; a divisor with a known small finite domain is expanded into a
// case split over constants, which keeps the arithmetic linear.
func (x *Exec) divBy(op func(a, b *Term) *Term, a, b *Term) *Term {
	// (expansion into a case split is done at solving time, see splitDomains)
	if vals, ok := x.finite[b.id]; ok {
		x.job.addDomain(b, vals)
	}
	return op(a, b)
}

// checkInv emits the obligation that v (which is about to escape) satisfies its type invariant.
func (x *Exec) checkInv(st *State, v *Val, pos token.Pos, where string) {
	if v == nil || v.T == nil || v.Typ == nil {
		return
	}
	if len(x.prog.typeInvariants(v.Typ)) == 0 {
		return
	}
	if _, isIface := v.Typ.Underlying().(*types.Interface); isIface {
		return
	}
	inv := x.typeInv(st, v)
	if _, isPtr := v.Typ.Underlying().(*types.Pointer); isPtr {
		inv = Implies(Neq(v.T, IntLit(0)), inv)
	}
	x.oblige(st, "type-inv", inv, pos, "type invariant of "+shortTypeName(v.Typ)+" "+where)
}

func (x *Exec) typeFact(st *State, v *Term, t types.Type, depth int) *Term {
	if v.isConst() {
		return True
	}
	switch u := t.Underlying().(type) {
	case *types.Basic:
		if lo, hi, ok := intRange(t); ok {
			return And(Le(IntLitStr(lo), v), Le(v, IntLitStr(hi)))
		}
		if u.Info()&types.IsString != 0 {
			if v.op == "mkStr" {
				return True
			}
			return And(Ge(strLen(v), IntLit(0)), Ge(strOff(v), IntLit(0)))
		}
	case *types.Pointer, *types.Map:
		return And(Ge(v, IntLit(0)), Lt(v, st.alloc))
	case *types.Slice:
		return And(Ge(slRef(v), IntLit(0)), Lt(slRef(v), st.alloc), Ge(slOff(v), IntLit(0)), Ge(slLen(v), IntLit(0)),
			Implies(Eq(slRef(v), IntLit(0)), Eq(slLen(v), IntLit(0))))
	case *types.Interface:
		tag := ifTag(v)
		ref := ifRef(v)
		cs := []*Term{Ge(tag, IntLit(0)), Implies(Eq(tag, IntLit(0)), Eq(ref, IntLit(0)))}
		impls := x.prog.implementers(t)
		if impls == nil {
			// `any` and interfaces from outside the module: whatever pointer type of the module is inside, it is allocated
			x.prog.ensureRtTypes()
			for _, it := range x.prog.rtList {
				if _, isPtr := it.Underlying().(*types.Pointer); isPtr {
					if _, named := it.(*types.Pointer).Elem().(*types.Named); named {
						cs = append(cs, Implies(Eq(tag, IntLit(int64(TE.TagOf(it)))), And(Gt(ref, IntLit(0)), Lt(ref, st.alloc))))
					}
				}
			}
		}
		if impls != nil {
			alts := []*Term{Eq(tag, IntLit(0))}
			for _, it := range impls {
				alts = append(alts, Eq(tag, IntLit(int64(TE.TagOf(it)))))
			}
			cs = append(cs, Or(alts...))
			for _, it := range impls {
				if _, isPtr := it.Underlying().(*types.Pointer); isPtr {
					cs = append(cs, Implies(Eq(tag, IntLit(int64(TE.TagOf(it)))), And(Gt(ref, IntLit(0)), Lt(ref, st.alloc))))
				} else if _, isStruct := it.Underlying().(*types.Struct); isStruct && depth < 2 {
					// a boxed struct value: the references inside it are as old as the interface value itself
					inner := x.typeFact(st, x.unbox(ref, it), it, depth+2)
					if inner != True {
						cs = append(cs, Implies(Eq(tag, IntLit(int64(TE.TagOf(it)))), inner))
					}
				}
			}
		}
		return And(cs...)
	case *types.Struct:
		if depth > 3 {
			return True
		}
		var cs []*Term
		for i := 0; i < u.NumFields(); i++ {
			cs = append(cs, x.typeFact(st, TE.Field(t, i, v), u.Field(i).Type(), depth+1))
		}
		return And(cs...)
	}
	return True
}

// freshVal creates an unconstrained value of a Go type with its typing assumption.
func (x *Exec) freshVal(st *State, name string, t types.Type) *Val {
	if tup, ok := t.(*types.Tuple); ok {
		v := &Val{Typ: t}
		for i := 0; i < tup.Len(); i++ {
			v.Tuple = append(v.Tuple, x.freshVal(st, fmt.Sprintf("%s.%d", name, i), tup.At(i).Type()))
		}
		return v
	}
	term := Fresh(name, TE.SortOf(t))
	x.assumeType(st, term, t)
	return &Val{T: term, Typ: t}
}

// ---------- heap access ----------

func (x *Exec) allocRef(st *State) *Term {
	r := st.alloc
	st.alloc = Add(st.alloc, IntLit(1))
	return r
}

func (x *Exec) readField(st *State, structT types.Type, i int, ref *Term) *Term {
	st0 := structT.Underlying().(*types.Struct)
	ft := st0.Field(i).Type()
	node := x.ctx.heapNode(st, fieldMapName(structT, i), TE.SortOf(ft))
	v := node.read(ref)
	x.assumeTypeB(st, v, ft, node.readBound(ref, x.job.alloc0))
	return v
}

func (x *Exec) writeField(st *State, structT types.Type, i int, ref, val *Term) {
	st0 := structT.Underlying().(*types.Struct)
	ft := st0.Field(i).Type()
	x.noteWrite(st, fieldMapName(structT, i), ref)
	x.ctx.hwriteB(st, fieldMapName(structT, i), TE.SortOf(ft), ref, val, x.bnd(st, val))
}

func (x *Exec) loadObj(st *State, structT types.Type, ref *Term) *Term {
	st0 := structT.Underlying().(*types.Struct)
	var fs []*Term
	for i := 0; i < st0.NumFields(); i++ {
		fs = append(fs, x.readField(st, structT, i, ref))
	}
	return TE.MkStruct(structT, fs)
}

func (x *Exec) storeObj(st *State, structT types.Type, ref, val *Term) {
	st0 := structT.Underlying().(*types.Struct)
	for i := 0; i < st0.NumFields(); i++ {
		fv := TE.Field(structT, i, val)
		if b, ok := x.boundOf[val.id]; ok {
			if _, has := x.boundOf[fv.id]; !has {
				x.boundOf[fv.id] = b
			}
		}
		x.writeField(st, structT, i, ref, fv)
	}
}

func (x *Exec) elemArr(st *State, elemT types.Type, ref *Term) *Term {
	es := TE.SortOf(elemT)
	return x.ctx.hread(st, arrMapName(elemT), arraySort(SInt, es), ref)
}

func (x *Exec) readElem(st *State, elemT types.Type, sl, idx *Term) *Term {
	arr := x.elemArr(st, elemT, slRef(sl))
	v := Select(arr, Add(slOff(sl), idx))
	if !hasFreeBound(idx) && !hasFreeBound(sl) {
		node := x.ctx.heapNode(st, arrMapName(elemT), arraySort(SInt, TE.SortOf(elemT)))
		x.assumeTypeB(st, v, elemT, node.readBound(slRef(sl), x.job.alloc0))
	}
	if !hasFreeBound(idx) {
		x.addReadInterest(st, arr, slOff(sl), idx)
	} else {
		x.assumeType(st, v, elemT)
	}
	return v
}

func (x *Exec) writeElem(st *State, elemT types.Type, sl, idx, val *Term) {
	es := TE.SortOf(elemT)
	name := arrMapName(elemT)
	x.noteWrite(st, name, slRef(sl))
	old := x.ctx.hread(st, name, arraySort(SInt, es), slRef(sl))
	x.ctx.hwrite(st, name, arraySort(SInt, es), slRef(sl), Store(old, Add(slOff(sl), idx), val))
}

func (x *Exec) load(st *State, p *Pointer) *Term {
	switch p.kind {
	case pkObj:
		if len(p.path) == 0 {
			return x.loadObj(st, p.objT, p.ref)
		}
		s0 := p.path[0]
		top := x.readField(st, p.objT, s0.field, p.ref)
		ft := p.objT.Underlying().(*types.Struct).Field(s0.field).Type()
		v := getPath(top, ft, p.path[1:])
		if len(p.path) > 1 {
			x.assumeType(st, v, p.targetType())
		}
		return v
	case pkCell:
		top := x.ctx.hread(st, p.cell, TE.SortOf(p.objT), p.ref)
		v := getPath(top, p.objT, p.path)
		x.assumeType(st, v, p.targetType())
		return v
	case pkElem:
		top := x.readElem(st, p.elemT, p.sl, p.idx)
		v := getPath(top, p.elemT, p.path)
		if len(p.path) > 0 {
			x.assumeType(st, v, p.targetType())
		}
		return v
	}
	panic("load: bad pointer")
}

func (x *Exec) store(st *State, p *Pointer, val *Term) {
	switch p.kind {
	case pkObj:
		if len(p.path) == 0 {
			x.storeObj(st, p.objT, p.ref, val)
			return
		}
		s0 := p.path[0]
		ft := p.objT.Underlying().(*types.Struct).Field(s0.field).Type()
		if len(p.path) == 1 {
			x.writeField(st, p.objT, s0.field, p.ref, val)
			return
		}
		top := x.readField(st, p.objT, s0.field, p.ref)
		x.writeField(st, p.objT, s0.field, p.ref, setPath(top, ft, p.path[1:], val))
	case pkCell:
		if len(p.path) == 0 {
			x.ctx.hwrite(st, p.cell, TE.SortOf(p.objT), p.ref, val)
			return
		}
		top := x.ctx.hread(st, p.cell, TE.SortOf(p.objT), p.ref)
		x.ctx.hwrite(st, p.cell, TE.SortOf(p.objT), p.ref, setPath(top, p.objT, p.path, val))
	case pkElem:
		if len(p.path) == 0 {
			x.writeElem(st, p.elemT, p.sl, p.idx, val)
			return
		}
		top := x.readElem(st, p.elemT, p.sl, p.idx)
		x.writeElem(st, p.elemT, p.sl, p.idx, setPath(top, p.elemT, p.path, val))
	default:
		panic("store: bad pointer")
	}
}

// noteWrite emits the frame obligation for a write to a pre-existing object when
// the function under verification has a contract.
func (x *Exec) noteWrite(st *State, mapName string, ref *Term) {
	if x.pure > 0 || x.job == nil || x.job.frame == nil {
		return
	}
	fr := x.job.frame
	if isAllocTerm(ref) {
		return
	}
	// fresh objects may always be written
	goal := Ge(ref, fr.alloc0)
	for _, m := range fr.allowed[mapName] {
		goal = Or(goal, Eq(ref, m))
	}
	if fr.any[mapName] {
		return
	}
	x.oblige(st, "frame", goal, token.NoPos, "write to "+mapName+" outside the modifies clause")
}

// ptrOf converts a pointer-typed value into a Pointer.
func (x *Exec) ptrOf(v *Val) *Pointer {
	if v.Ptr != nil {
		return v.Ptr
	}
	pt, ok := v.Typ.Underlying().(*types.Pointer)
	if !ok {
		unsupportedf("ptrOf: not a pointer type %s", v.Typ)
	}
	if _, isStruct := pt.Elem().Underlying().(*types.Struct); isStruct {
		return &Pointer{kind: pkObj, ref: v.T, objT: pt.Elem()}
	}
	if x.job != nil && x.job.fn != nil && x.cutsOnly() && v.T != nil {
		// cuts-only functions: pointers to scalars of unknown origin (a decoded *string field) live in one heap map
		// per pointee type, separate from the cells of address-taken locals
		x.trusted["A-SCALARPTR: pointers to non-struct values that were not created in the function itself are read through one heap map per pointee type, assumed not to alias the function's own address-taken locals"] = true
		return &Pointer{kind: pkCell, ref: v.T, objT: pt.Elem(), cell: "pstar." + types.TypeString(pt.Elem(), nil)}
	}
	unsupportedf("pointer to non-struct %s without a known cell", v.Typ)
	return nil
}

// ---------- running a function ----------

func (x *Exec) newFrame(fn *ssa.Function, args []*Val, free []*Val, st *State, caller *Frame) *Frame {
	fr := &Frame{fn: fn, env: map[ssa.Value]*Val{}, freeVars: free, params: args, entry: st.clone(), caller: caller,
		headerSt: map[*ssa.BasicBlock]*loopRt{}, lets: map[string]*Val{}}
	for i, p := range fn.Params {
		if i < len(args) {
			fr.env[p] = args[i]
		}
	}
	for i, f := range fn.FreeVars {
		if i < len(free) {
			fr.env[f] = free[i]
		}
	}
	fr.contract = x.prog.contractFor(fn)
	if fr.contract != nil && caller == nil {
		for _, cl := range fr.contract.Clauses {
			if cl.Kind == "bind" && strings.TrimSpace(cl.Src) == "true" {
				fr.lets[cl.Bind] = &Val{T: False, Typ: boolT}
			}
		}
	}
	fr.loops = x.prog.loopsOf(fn)
	return fr
}

type edgeState struct {
	from *ssa.BasicBlock
	st   *State
}

// run executes fn's body from state st0; returns the merged return value and state.
// Returns (nil, nil) if no return is reachable.
func (x *Exec) run(fr *Frame, st0 *State) (*Val, *State) {
	fn := fr.fn
	if len(fn.Blocks) == 0 {
		unsupportedf("function %s has no body", fn)
	}
	li := fr.loops
	incoming := map[*ssa.BasicBlock][]edgeState{}
	incoming[fn.Blocks[0]] = []edgeState{{nil, st0}}
	var rets []edgeState
	var retVals []*Val
	var cutReachSet map[*ssa.BasicBlock]bool
	if fr.caller == nil && fr.contract != nil && fr.contract.CutsOnly && x.pure == 0 && fr.contract.trivialEnsures() {
		cutReachSet = cutReach(fr.contract, fn)
	}
	for _, b := range li.rpo {
		ins := incoming[b]
		var live []edgeState
		for _, e := range ins {
			if e.st.pc != False {
				live = append(live, e)
			}
		}
		if len(live) == 0 {
			continue
		}
		var sts []*State
		for _, e := range live {
			sts = append(sts, e.st)
		}
		st := x.ctx.mergeStates(sts)
		if cutReachSet != nil && !cutReachSet[b] {
			// cuts-only function: no cut can be reached from here any more; the rest of the body is not explored
			rets = append(rets, edgeState{b, st})
			retVals = append(retVals, x.freshResults(st, "cutsonly", fn.Signature.Results()))
			continue
		}
		// phis
		for _, ins := range b.Instrs {
			phi, ok := ins.(*ssa.Phi)
			if !ok {
				break
			}
			fr.env[phi] = x.phiValue(fr, phi, b, live)
		}
		if lp := li.headers[b]; lp != nil {
			x.enterLoop(fr, lp, st)
		}
		// instructions
		terminated := false
		// cuts-only function: in a block none of whose successors reaches a cut, nothing after the block's last
		// addressed call matters any more
		stopAfter := -1
		if cutReachSet != nil {
			tail := true
			for _, sc := range b.Succs {
				if cutReachSet[sc] {
					tail = false
				}
			}
			if tail {
				for i, ins := range b.Instrs {
					if call, ok := ins.(*ssa.Call); ok && cutCallName(fr.contract, call) != "" && fr.contract.addresses(cutCallName(fr.contract, call)) {
						stopAfter = i
					}
				}
			}
		}
		for insIdx, ins := range b.Instrs {
			if _, ok := ins.(*ssa.Phi); ok {
				continue
			}
			if st.pc == False {
				terminated = true
				break
			}
			if stopAfter >= 0 && insIdx > stopAfter {
				rets = append(rets, edgeState{b, st})
				retVals = append(retVals, x.freshResults(st, "cutsonly", fn.Signature.Results()))
				terminated = true
				break
			}
			switch in := ins.(type) {
			case *ssa.If:
				c := x.get(fr, in.Cond).T
				s1 := st.clone()
				s1.pc = And(st.pc, c)
				s2 := st.clone()
				s2.pc = And(st.pc, Not(c))
				x.edge(fr, incoming, b, b.Succs[0], s1)
				x.edge(fr, incoming, b, b.Succs[1], s2)
				terminated = true
			case *ssa.Jump:
				x.edge(fr, incoming, b, b.Succs[0], st)
				terminated = true
			case *ssa.Return:
				var rv *Val
				switch len(in.Results) {
				case 0:
					rv = &Val{}
				case 1:
					rv = x.get(fr, in.Results[0])
				default:
					rv = &Val{Typ: fn.Signature.Results()}
					for _, r := range in.Results {
						rv.Tuple = append(rv.Tuple, x.get(fr, r))
					}
				}
				rets = append(rets, edgeState{b, st})
				retVals = append(retVals, rv)
				terminated = true
			case *ssa.Panic:
				x.oblige(st, "panic", Not(st.pc), in.Pos(), "explicit panic reachable: "+x.describePanic(in))
				terminated = true
			default:
				x.step(fr, st, ins)
			}
			if terminated {
				break
			}
		}
	}
	if len(rets) == 0 {
		return nil, nil
	}
	var sts []*State
	for _, e := range rets {
		sts = append(sts, e.st)
	}
	out := x.ctx.mergeStates(sts)
	rv := retVals[0]
	for i := 1; i < len(rets); i++ {
		rv = x.iteVal(rets[i].st.pc, retVals[i], rv)
	}
	return rv, out
}

func (x *Exec) describePanic(p *ssa.Panic) string {
	if mi, ok := p.X.(*ssa.MakeInterface); ok {
		if c, ok := mi.X.(*ssa.Const); ok {
			return c.Value.String()
		}
	}
	return p.X.String()
}

func (x *Exec) edge(fr *Frame, incoming map[*ssa.BasicBlock][]edgeState, from, to *ssa.BasicBlock, st *State) {
	if st.pc == False {
		return
	}
	if fr.loops.isBackEdge(from, to) {
		x.backEdge(fr, from, to, st)
		return
	}
	incoming[to] = append(incoming[to], edgeState{from, st})
}

func (x *Exec) phiValue(fr *Frame, phi *ssa.Phi, b *ssa.BasicBlock, live []edgeState) *Val {
	var out *Val
	for _, e := range live {
		if e.from == nil {
			continue
		}
		idx := -1
		for i, p := range b.Preds {
			if p == e.from {
				idx = i
				// a block may appear twice as predecessor (if both branches go to b); values then coincide or differ by edge.
				break
			}
		}
		if idx < 0 {
			continue
		}
		v := x.get(fr, phi.Edges[idx])
		if out == nil {
			out = v
		} else {
			out = x.iteVal(e.st.pc, v, out)
		}
	}
	if out == nil {
		unsupportedf("phi without live incoming edge")
	}
	return out
}

func (x *Exec) iteVal(c *Term, a, b *Val) *Val {
	if a == b {
		return a
	}
	if a.Tuple != nil || b.Tuple != nil {
		v := &Val{Typ: a.Typ}
		for i := range a.Tuple {
			v.Tuple = append(v.Tuple, x.iteVal(c, a.Tuple[i], b.Tuple[i]))
		}
		return v
	}
	if a.Clo != nil || b.Clo != nil {
		alts := []CloAlt{}
		add := func(cond *Term, v *Val) {
			if v.Clo == nil {
				alts = append(alts, CloAlt{cond, nil})
				return
			}
			if v.Clo.Fn != nil {
				alts = append(alts, CloAlt{cond, v.Clo})
				return
			}
			for _, al := range v.Clo.Alts {
				alts = append(alts, CloAlt{And(cond, al.Cond), al.Clo})
			}
		}
		add(c, a)
		add(Not(c), b)
		return &Val{Typ: a.Typ, Clo: &Closure{Alts: alts}}
	}
	if a.Ptr != nil || b.Ptr != nil {
		if a.Ptr != nil && b.Ptr != nil && samePointerShape(a.Ptr, b.Ptr) {
			p := *a.Ptr
			switch p.kind {
			case pkObj, pkCell:
				p.ref = Ite(c, a.Ptr.ref, b.Ptr.ref)
			case pkElem:
				p.sl = Ite(c, a.Ptr.sl, b.Ptr.sl)
				p.idx = Ite(c, a.Ptr.idx, b.Ptr.idx)
			}
			return &Val{Typ: a.Typ, Ptr: &p}
		}
		unsupportedf("merge of structured pointers")
	}
	if a.Iter != nil {
		return a
	}
	if a.T == nil || b.T == nil {
		if a.T == nil && b.T == nil {
			return a
		}
		unsupportedf("merge of incompatible values")
	}
	r := &Val{T: Ite(c, a.T, b.T), Typ: a.Typ}
	if a.Regex != nil && b.Regex != nil && a.Regex == b.Regex {
		r.Regex = a.Regex
	}
	return r
}

func samePointerShape(a, b *Pointer) bool {
	if a.kind != b.kind || len(a.path) != len(b.path) || a.cell != b.cell {
		return false
	}
	for i := range a.path {
		if a.path[i].field != b.path[i].field || a.path[i].index != b.path[i].index {
			return false
		}
	}
	switch a.kind {
	case pkObj, pkCell:
		return types.Identical(a.objT, b.objT)
	}
	return types.Identical(a.elemT, b.elemT)
}

// get returns the symbolic value of an SSA value in the frame.
func (x *Exec) get(fr *Frame, v ssa.Value) *Val {
	if r, ok := fr.env[v]; ok {
		return r
	}
	switch c := v.(type) {
	case *ssa.Const:
		return constVal(c)
	case *ssa.Function:
		return &Val{Typ: c.Type(), Clo: &Closure{Fn: c}}
	case *ssa.Global:
		return x.globalPtr(c)
	case *ssa.Builtin:
		return &Val{Typ: c.Type()}
	}
	unsupportedf("value %s (%T) of %s not available", v.Name(), v, fr.fn)
	return nil
}

// ---------- loops ----------

func (x *Exec) loopClauses(fr *Frame, lp *loop, kind string) []*Clause {
	if fr.contract == nil {
		return nil
	}
	return fr.contract.clauses(kind, lp.ordinal)
}

func (x *Exec) enterLoop(fr *Frame, lp *loop, st *State) {
	// 1. invariants hold on entry
	x.checkInvariants(fr, lp, st, nil, "inv-entry")
	// 2. havoc loop-modified state
	bound := st.alloc
	na := Fresh("alloc@loop", SInt)
	x.ctx.assume(st, Ge(na, st.alloc))
	writes := x.prog.loopWrites(fr, lp)
	names := sortedKeys(writes)
	for _, name := range names {
		w := writes[name]
		vs, ok := x.ctx.heapSorts[name]
		if !ok {
			vs = w.sort
			if vs == nil {
				continue
			}
		}
		if w.oldObjects {
			x.ctx.hhavoc(st, name, vs, nil, nil, fmt.Sprintf("loop%d", lp.ordinal), na)
		} else {
			x.ctx.hhavoc(st, name, vs, bound, nil, fmt.Sprintf("loop%d", lp.ordinal), na)
		}
	}
	st.alloc = na
	for _, ins := range lp.header.Instrs {
		phi, ok := ins.(*ssa.Phi)
		if !ok {
			break
		}
		old := fr.env[phi]
		fr.env[phi] = x.havocLike(st, fmt.Sprintf("%s.%s@L%d", shortFn(fr.fn), phiName(phi), lp.ordinal), old, phi.Type())
	}
	// 3. assume invariants
	for _, t := range x.autoInvariants(fr, lp, nil) {
		x.ctx.assume(st, t)
	}
	for _, v := range x.evalClausesAt(fr, st, x.loopClauses(fr, lp, "invariant"), nil, "invariant", lp.header) {
		x.assumeFact(st, v.t)
	}
	rt := &loopRt{st: st.clone()}
	for _, v := range x.evalClausesAt(fr, st, x.loopClauses(fr, lp, "decreases"), nil, "decreases", lp.header) {
		rt.variant = append(rt.variant, v.t)
	}
	fr.headerSt[lp.header] = rt
}

func phiName(phi *ssa.Phi) string {
	if phi.Comment != "" {
		return phi.Comment
	}
	return phi.Name()
}

func shortFn(fn *ssa.Function) string {
	s := fn.String()
	if i := strings.LastIndex(s, "/"); i >= 0 {
		s = s[i+1:]
	}
	return s
}

// havocLike produces a fresh value with the same shape as old.
func (x *Exec) havocLike(st *State, name string, old *Val, t types.Type) *Val {
	if old != nil && old.Tuple != nil {
		v := &Val{Typ: old.Typ}
		for i, e := range old.Tuple {
			v.Tuple = append(v.Tuple, x.havocLike(st, fmt.Sprintf("%s.%d", name, i), e, e.Typ))
		}
		return v
	}
	if old != nil && old.Clo != nil {
		unsupportedf("loop-carried function value %s", name)
	}
	if old != nil && old.Ptr != nil {
		unsupportedf("loop-carried structured pointer %s", name)
	}
	if old != nil && old.Iter != nil {
		return old
	}
	return x.freshVal(st, name, t)
}

type evalRes struct {
	t  *Term
	cl *Clause
}

// evalClauses evaluates contract clauses (with let-bindings) in state st.
func (x *Exec) evalClauses(fr *Frame, st *State, cls []*Clause, over map[ssa.Value]*Val, kind string) []evalRes {
	return x.evalClausesAt(fr, st, cls, over, kind, nil)
}

func (x *Exec) evalClausesAt(fr *Frame, st *State, cls []*Clause, over map[ssa.Value]*Val, kind string, blk *ssa.BasicBlock) []evalRes {
	var out []evalRes
	ev := &evaluator{x: x, fr: fr, st: st, over: over, lets: map[string]*Val{}, lazy: map[string]ast.Expr{}, blk: blk, midBlock: kind == "assert"}
	for k, v := range fr.lets {
		ev.lets[k] = v
	}
	for _, cl := range cls {
		cl.Used = true
		if cl.Kind == "let" {
			delete(ev.lets, cl.Name)
			ev.lazy[cl.Name] = cl.Expr
			continue
		}
		if cl.Kind != kind {
			continue
		}
		v := ev.eval(cl.Expr)
		if v.T == nil {
			unsupportedf("clause %q does not evaluate to a term", cl.Src)
		}
		if os.Getenv("GOVC_DEBUG") != "" {
			fmt.Fprintf(os.Stderr, "DEBUG %s %s clause %q => %s\n", fr.fn.Name(), kind, cl.Src, v.T.StringN(600))
		}
		out = append(out, evalRes{v.T, cl})
	}
	return out
}

// autoInvariants: monotone integer counters (phi = phi + c, c > 0, constant start k) satisfy phi >= k.
func (x *Exec) autoInvariants(fr *Frame, lp *loop, over map[ssa.Value]*Val) []*Term {
	var out []*Term
	for _, ins := range lp.header.Instrs {
		phi, ok := ins.(*ssa.Phi)
		if !ok {
			break
		}
		if _, _, isInt := intRange(phi.Type()); !isInt {
			continue
		}
		var start *int64
		mono := true
		for i, e := range phi.Edges {
			pred := lp.header.Preds[i]
			if lp.body[pred] {
				// back edge: must be phi + positive constant
				bo, ok := e.(*ssa.BinOp)
				if !ok || bo.Op != token.ADD || bo.X != ssa.Value(phi) {
					mono = false
					break
				}
				c, ok := bo.Y.(*ssa.Const)
				if !ok || c.Value == nil || c.Int64() <= 0 {
					mono = false
					break
				}
			} else {
				c, ok := e.(*ssa.Const)
				if !ok || c.Value == nil {
					mono = false
					break
				}
				v := c.Int64()
				if start != nil && *start != v {
					mono = false
					break
				}
				start = &v
			}
		}
		if !mono || start == nil {
			continue
		}
		var cur *Val
		if over != nil {
			cur = over[phi]
		}
		if cur == nil {
			cur = fr.env[phi]
		}
		if cur == nil || cur.T == nil {
			continue
		}
		out = append(out, Ge(cur.T, IntLit(*start)))
		// range loops: the hidden index never passes the length (index+1 <= len)
		if phi.Comment == "rangeindex" {
			for _, hi := range lp.header.Instrs {
				lt, ok := hi.(*ssa.BinOp)
				if !ok || lt.Op != token.LSS {
					continue
				}
				inc, ok := lt.X.(*ssa.BinOp)
				if !ok || inc.Op != token.ADD || inc.X != ssa.Value(phi) {
					continue
				}
				if li, ok := lt.Y.(ssa.Instruction); ok && lp.body[li.Block()] {
					continue
				}
				if lv, ok := fr.env[lt.Y]; ok && lv.T != nil {
					out = append(out, Le(Add(cur.T, IntLit(1)), lv.T))
				}
			}
		}
	}
	return out
}

// atFun: element access as an uninterpreted function (good quantifier trigger), linked to select by an axiom.
func (x *Exec) atFun(st *State, arr, off, idx *Term) *Term {
	_, es := arr.sort.arrayParts()
	name := "at." + sanitize(es.Name)
	DeclareFun(name, es, arr.sort, SInt, SInt)
	key := [2]int{-11, len(name)*1000003 + int(name[len(name)-1])}
	if !x.atDeclared[name] {
		if x.atDeclared == nil {
			x.atDeclared = map[string]bool{}
		}
		x.atDeclared[name] = true
		a := BoundVar("a", arr.sort)
		o := BoundVar("o", SInt)
		k := BoundVar("k", SInt)
		x.ctx.assumeGlobal(st, Forall([]*Term{a, o, k}, Eq(App(name, es, a, o, k), Select(a, Add(o, k))), []*Term{App(name, es, a, o, k)}))
		// reading through a store keeps the reasoning in terms of `at` (so that quantified clauses about the old array are triggered)
		a2 := BoundVar("a", arr.sort)
		p2 := BoundVar("p", SInt)
		v2 := BoundVar("v", es)
		o2 := BoundVar("o", SInt)
		k2 := BoundVar("k", SInt)
		st2 := TS.mk("store", "", arr.sort, a2, p2, v2)
		x.ctx.assumeGlobal(st, Forall([]*Term{a2, p2, v2, o2, k2},
			Eq(App(name, es, st2, o2, k2), Ite(Eq(Add(o2, k2), p2), v2, App(name, es, a2, o2, k2))),
			[]*Term{App(name, es, st2, o2, k2)}))
	}
	_ = key
	return App(name, es, arr, off, idx)
}

func (x *Exec) checkInvariants(fr *Frame, lp *loop, st *State, over map[ssa.Value]*Val, kind string) {
	if kind == "inv-step" && st.pc != False && len(x.siteStack) == 0 {
		x.reachProbe(st, fmt.Sprintf("loop%d", lp.ordinal), "a back edge of the loop is reachable under the assumptions (expected: sat)")
	}
	for i, t := range x.autoInvariants(fr, lp, over) {
		x.oblige(st, fmt.Sprintf("%s(loop%d.auto%d)", kind, lp.ordinal, i+1), t, lp.header.Instrs[0].Pos(), "counter never drops below its start value")
	}
	for i, r := range x.evalClausesAt(fr, st, x.loopClauses(fr, lp, "invariant"), over, "invariant", lp.header) {
		x.oblige(st, fmt.Sprintf("%s(loop%d.%d)", kind, lp.ordinal, i+1), r.t, lp.header.Instrs[0].Pos(), r.cl.Src)
	}
}

func (x *Exec) backEdge(fr *Frame, from, to *ssa.BasicBlock, st *State) {
	lp := fr.loops.headers[to]
	over := map[ssa.Value]*Val{}
	idx := -1
	for i, p := range to.Preds {
		if p == from {
			idx = i
		}
	}
	for _, ins := range to.Instrs {
		phi, ok := ins.(*ssa.Phi)
		if !ok {
			break
		}
		over[phi] = x.get(fr, phi.Edges[idx])
	}
	x.checkInvariants(fr, lp, st, over, "inv-step")
	rt := fr.headerSt[to]
	if rt != nil && len(rt.variant) > 0 {
		now := x.evalClausesAt(fr, st, x.loopClauses(fr, lp, "decreases"), over, "decreases", lp.header)
		// lexicographic decrease, bounded below by 0
		var dec *Term = False
		eqPrefix := True
		for i := range rt.variant {
			dec = Or(dec, And(eqPrefix, Lt(now[i].t, rt.variant[i]), Ge(rt.variant[i], IntLit(0))))
			eqPrefix = And(eqPrefix, Eq(now[i].t, rt.variant[i]))
		}
		x.oblige(st, fmt.Sprintf("decreases(loop%d)", lp.ordinal), dec, to.Instrs[0].Pos(), "loop variant decreases and is bounded")
	}
}

// ---------- instructions ----------

func (x *Exec) step(fr *Frame, st *State, ins ssa.Instruction) {
	switch in := ins.(type) {
	case *ssa.DebugRef:
		return
	case *ssa.Alloc:
		fr.env[in] = x.doAlloc(fr, st, in)
	case *ssa.Store:
		addr := x.get(fr, in.Addr)
		val := x.get(fr, in.Val)
		p := x.ptrOf(addr)
		x.checkNonNilPtr(st, p, in.Pos())
		if val.T == nil {
			x.storeSpecial(fr, st, p, val)
			return
		}
		// a pointer that is stored may later be read back with its type invariant assumed: check it here
		if _, isPtr := val.Typ.Underlying().(*types.Pointer); isPtr {
			x.checkInv(st, val, in.Pos(), "when stored")
		}
		x.store(st, p, val.T)
	case *ssa.UnOp:
		fr.env[in] = x.unop(fr, st, in)
	case *ssa.BinOp:
		fr.env[in] = x.binop(fr, st, in)
	case *ssa.FieldAddr:
		base := x.get(fr, in.X)
		p := x.ptrOf(base)
		x.checkNonNilPtr(st, p, in.Pos())
		structT := p.targetType()
		fr.env[in] = &Val{Typ: in.Type(), Ptr: p.extend(pathStep{field: in.Field, typ: structT})}
	case *ssa.Field:
		base := x.get(fr, in.X)
		fr.env[in] = &Val{T: TE.Field(base.Typ, in.Field, base.T), Typ: in.Type()}
		x.assumeTypeB(st, fr.env[in].T, in.Type(), x.bnd(st, base.T))
	case *ssa.IndexAddr:
		fr.env[in] = x.indexAddr(fr, st, in)
	case *ssa.Index:
		base := x.get(fr, in.X)
		idx := x.get(fr, in.Index).T
		switch bt := base.Typ.Underlying().(type) {
		case *types.Basic: // string
			x.oblige(st, "index", And(Ge(idx, IntLit(0)), Lt(idx, strLen(base.T))), in.Pos(), "string index in range")
			v := strAt(base.T, idx)
			x.ctx.assume(st, And(Ge(v, IntLit(0)), Le(v, IntLit(255))))
			fr.env[in] = &Val{T: v, Typ: in.Type()}
		case *types.Array:
			x.oblige(st, "index", And(Ge(idx, IntLit(0)), Lt(idx, IntLit(bt.Len()))), in.Pos(), "array index in range")
			fr.env[in] = &Val{T: Select(base.T, idx), Typ: in.Type()}
		default:
			unsupportedf("Index on %s", base.Typ)
		}
	case *ssa.Extract:
		t := x.get(fr, in.Tuple)
		if t.Tuple == nil {
			unsupportedf("extract from non-tuple %s", in.Tuple)
		}
		fr.env[in] = t.Tuple[in.Index]
	case *ssa.Call:
		x.assertsBefore(fr, st, in)
		fr.env[in] = x.call(fr, st, &in.Call, in)
	case *ssa.MakeInterface:
		fr.env[in] = x.makeInterface(st, x.get(fr, in.X), in.Type())
	case *ssa.ChangeInterface:
		v := x.get(fr, in.X)
		fr.env[in] = &Val{T: v.T, Typ: in.Type()}
	case *ssa.ChangeType:
		v := x.get(fr, in.X)
		nv := *v
		nv.Typ = in.Type()
		fr.env[in] = &nv
	case *ssa.Convert:
		fr.env[in] = x.convert(fr, st, in)
	case *ssa.TypeAssert:
		fr.env[in] = x.typeAssert(fr, st, in)
	case *ssa.Slice:
		fr.env[in] = x.sliceOp(fr, st, in)
	case *ssa.MakeSlice:
		ln := x.get(fr, in.Len).T
		x.oblige(st, "makeslice", Ge(ln, IntLit(0)), in.Pos(), "make: length non-negative")
		elemT := in.Type().Underlying().(*types.Slice).Elem()
		ref := x.allocRef(st)
		es := TE.SortOf(elemT)
		name := arrMapName(elemT)
		x.ctx.hwrite(st, name, arraySort(SInt, es), ref, ConstArr(arraySort(SInt, es), TE.zeroValue(elemT)))
		fr.env[in] = &Val{T: mkSlice(ref, IntLit(0), ln), Typ: in.Type()}
	case *ssa.MakeClosure:
		var bs []*Val
		for _, b := range in.Bindings {
			bs = append(bs, x.get(fr, b))
		}
		fr.env[in] = &Val{Typ: in.Type(), Clo: &Closure{Fn: in.Fn.(*ssa.Function), Bindings: bs}}
	case *ssa.MakeMap:
		fr.env[in] = x.makeMap(fr, st, in)
	case *ssa.MapUpdate:
		x.mapUpdate(fr, st, in)
	case *ssa.Lookup:
		fr.env[in] = x.lookup(fr, st, in)
	case *ssa.Range:
		fr.env[in] = x.rangeOp(fr, st, in)
	case *ssa.Next:
		fr.env[in] = x.nextOp(fr, st, in)
	case *ssa.RunDefers:
		return
	default:
		unsupportedf("instruction %T (%s) in %s", ins, ins, fr.fn)
	}
}

func (x *Exec) checkNonNilPtr(st *State, p *Pointer, pos token.Pos) {
	if p.kind == pkObj && len(p.path) == 0 {
		if p.ref.op == "+" || p.ref.op == "sym" && strings.HasPrefix(p.ref.val, "alloc") {
			return
		}
		x.oblige(st, "nil", Neq(p.ref, IntLit(0)), pos, "nil pointer dereference")
	}
}

func (x *Exec) doAlloc(fr *Frame, st *State, in *ssa.Alloc) *Val {
	elemT := in.Type().Underlying().(*types.Pointer).Elem()
	ref := x.allocRef(st)
	if _, ok := elemT.Underlying().(*types.Struct); ok {
		x.storeObjFresh(st, elemT, ref, TE.zeroValue(elemT))
		return &Val{T: ref, Typ: in.Type()}
	}
	name := cellName(in)
	x.ctx.hwrite(st, name, TE.SortOf(elemT), ref, TE.zeroValue(elemT))
	return &Val{Typ: in.Type(), Ptr: &Pointer{kind: pkCell, ref: ref, objT: elemT, cell: name}}
}

func (x *Exec) storeObjFresh(st *State, structT types.Type, ref, val *Term) {
	st0 := structT.Underlying().(*types.Struct)
	for i := 0; i < st0.NumFields(); i++ {
		ft := st0.Field(i).Type()
		x.ctx.hwrite(st, fieldMapName(structT, i), TE.SortOf(ft), ref, TE.Field(structT, i, val))
	}
}

func cellName(in *ssa.Alloc) string {
	return "cell:" + in.Parent().String() + "#" + in.Name()
}

func (x *Exec) storeSpecial(fr *Frame, st *State, p *Pointer, val *Val) {
	// storing a closure or structured pointer into a cell: keep it Go-side, keyed by cell+ref
	if p.kind == pkCell && len(p.path) == 0 {
		key := fmt.Sprintf("%s@%d", p.cell, p.ref.id)
		x.job.special[key] = val
		return
	}
	// a closure with a known body stored into a slice element or a field: it becomes a function constant (a term) that
	// callClosure resolves back to the body by case distinction over the constants of this job
	if val.Clo != nil && val.Clo.Fn != nil && val.T == nil {
		x.store(st, p, x.fnConst(val.Clo))
		return
	}
	unsupportedf("store of non-term value through %v", p.kind)
}

func (x *Exec) unop(fr *Frame, st *State, in *ssa.UnOp) *Val {
	v := x.get(fr, in.X)
	switch in.Op {
	case token.MUL: // load
		if g, ok := in.X.(*ssa.Global); ok {
			return x.loadGlobal(st, g)
		}
		p := x.ptrOf(v)
		x.checkNonNilPtr(st, p, in.Pos())
		if p.kind == pkCell && len(p.path) == 0 {
			if sv, ok := x.job.special[fmt.Sprintf("%s@%d", p.cell, p.ref.id)]; ok {
				return sv
			}
		}
		if _, isFn := in.Type().Underlying().(*types.Signature); isFn {
			return x.loadFuncValue(st, p, in.Type())
		}
		return &Val{T: x.load(st, p), Typ: in.Type()}
	case token.NOT:
		return &Val{T: Not(v.T), Typ: in.Type()}
	case token.SUB:
		if v.T.sort != SInt {
			return &Val{T: TS.mk("-", "", v.T.sort, v.T), Typ: in.Type()}
		}
		return &Val{T: Neg(v.T), Typ: in.Type()}
	}
	unsupportedf("unary operator %s", in.Op)
	return nil
}

func (x *Exec) loadFuncValue(st *State, p *Pointer, t types.Type) *Val {
	// function-typed struct field (e.g. SerialParser.ParseOne): opaque function value
	return &Val{T: x.load(st, p), Typ: t}
}

func (x *Exec) binop(fr *Frame, st *State, in *ssa.BinOp) *Val {
	a := x.get(fr, in.X)
	b := x.get(fr, in.Y)
	return x.binopVals(st, in.Op, a, b, in.Type(), in.Pos())
}

func (x *Exec) binopVals(st *State, op token.Token, a, b *Val, rt types.Type, pos token.Pos) *Val {
	at := a.Typ
	if at == nil {
		at = b.Typ
	}
	// nil comparisons of function values / pointers
	if (op == token.EQL || op == token.NEQ) && (a.Clo != nil || b.Clo != nil || (a.T == nil && a.Ptr == nil) || (b.T == nil && b.Ptr == nil)) {
		r := x.funcNilCompare(a, b)
		if op == token.NEQ {
			r = Not(r)
		}
		return &Val{T: r, Typ: rt}
	}
	if (op == token.EQL || op == token.NEQ) && (a.Ptr != nil || b.Ptr != nil) {
		// comparison of a structured pointer with nil: never nil
		r := False
		if a.Ptr != nil && b.Ptr != nil {
			unsupportedf("comparison of structured pointers")
		}
		if op == token.NEQ {
			r = True
		}
		return &Val{T: r, Typ: rt}
	}
	under := at.Underlying()
	if bt, ok := under.(*types.Basic); ok && bt.Info()&types.IsString != 0 {
		switch op {
		case token.ADD:
			return &Val{T: x.strConcat(st, a.T, b.T), Typ: rt}
		case token.EQL:
			return &Val{T: x.strEqual(st, a.T, b.T), Typ: rt}
		case token.NEQ:
			return &Val{T: Not(x.strEqual(st, a.T, b.T)), Typ: rt}
		case token.LSS:
			// the lexicographic order is an uninterpreted total order (gs.lt): nothing but its totality is used
			return &Val{T: UF("gs.lt", SBool, a.T, b.T), Typ: rt}
		case token.GTR:
			return &Val{T: UF("gs.lt", SBool, b.T, a.T), Typ: rt}
		case token.LEQ:
			return &Val{T: Not(UF("gs.lt", SBool, b.T, a.T)), Typ: rt}
		case token.GEQ:
			return &Val{T: Not(UF("gs.lt", SBool, a.T, b.T)), Typ: rt}
		}
		unsupportedf("string operator %s", op)
	}
	if bt, ok := under.(*types.Basic); ok && bt.Info()&types.IsFloat != 0 {
		return &Val{T: x.floatOp(op, a.T, b.T), Typ: rt}
	}
	switch op {
	case token.ADD:
		return &Val{T: Add(a.T, b.T), Typ: rt}
	case token.SUB:
		return &Val{T: Sub(a.T, b.T), Typ: rt}
	case token.MUL:
		return &Val{T: Mul(a.T, b.T), Typ: rt}
	case token.QUO:
		x.oblige(st, "div", Neq(b.T, IntLit(0)), pos, "division by zero")
		x.divFacts(st, a.T, b.T)
		return &Val{T: x.divBy(GoDiv, a.T, b.T), Typ: rt}
	case token.REM:
		x.oblige(st, "div", Neq(b.T, IntLit(0)), pos, "division by zero")
		x.divFacts(st, a.T, b.T)
		return &Val{T: x.divBy(GoRem, a.T, b.T), Typ: rt}
	case token.LSS:
		return &Val{T: Lt(a.T, b.T), Typ: rt}
	case token.LEQ:
		return &Val{T: Le(a.T, b.T), Typ: rt}
	case token.GTR:
		return &Val{T: Gt(a.T, b.T), Typ: rt}
	case token.GEQ:
		return &Val{T: Ge(a.T, b.T), Typ: rt}
	case token.EQL:
		return &Val{T: x.goEq(st, a, b), Typ: rt}
	case token.NEQ:
		return &Val{T: Not(x.goEq(st, a, b)), Typ: rt}
	case token.AND:
		if a.T.sort == SBool {
			return &Val{T: And(a.T, b.T), Typ: rt}
		}
		return &Val{T: UF("bit.and", SInt, a.T, b.T), Typ: rt}
	case token.OR:
		if a.T.sort == SBool {
			return &Val{T: Or(a.T, b.T), Typ: rt}
		}
		return &Val{T: x.bitOr(st, a.T, b.T), Typ: rt}
	case token.SHL:
		r := x.shl(st, a.T, b.T)
		if _, hi, ok := intRange(rt); ok && strings.HasPrefix(hi, "4294967295") {
			if _, lit := r.intVal(); !lit && r != a.T {
				r = EMod(r, IntLit(1<<32)) // uint32 shifts drop the high bits
			}
		}
		return &Val{T: r, Typ: rt}
	case token.SHR:
		return &Val{T: UF("bit.shr", SInt, a.T, b.T), Typ: rt}
	case token.XOR, token.AND_NOT:
		return &Val{T: UF("bit."+op.String(), SInt, a.T, b.T), Typ: rt}
	}
	unsupportedf("binary operator %s", op)
	return nil
}

func (x *Exec) floatOp(op token.Token, a, b *Term) *Term {
	real := mkSort("Real")
	switch op {
	case token.ADD:
		return TS.mk("+", "", real, a, b)
	case token.SUB:
		return TS.mk("-", "", real, a, b)
	case token.MUL:
		return TS.mk("*", "", real, a, b)
	case token.QUO:
		return TS.mk("/", "", real, a, b)
	case token.LSS:
		return TS.mk("<", "", SBool, a, b)
	case token.LEQ:
		return TS.mk("<=", "", SBool, a, b)
	case token.GTR:
		return TS.mk("<", "", SBool, b, a)
	case token.GEQ:
		return TS.mk("<=", "", SBool, b, a)
	case token.EQL:
		return Eq(a, b)
	case token.NEQ:
		return Neq(a, b)
	}
	unsupportedf("float operator %s", op)
	return nil
}

func (x *Exec) funcNilCompare(a, b *Val) *Term {
	isNil := func(v *Val) *Term {
		if v.Clo != nil {
			if v.Clo.Fn != nil {
				return False
			}
			r := False
			for _, al := range v.Clo.Alts {
				if al.Clo == nil {
					r = Or(r, al.Cond)
				}
			}
			return r
		}
		if v.T != nil {
			return Eq(v.T, TE.zeroValue(v.Typ))
		}
		return True // nil constant of func type
	}
	// exactly one side is the nil constant
	if c, ok := isNilConst(a); ok && c {
		return isNil(b)
	}
	return isNil(a)
}

func isNilConst(v *Val) (bool, bool) {
	if v.Clo == nil && v.Ptr == nil && v.T != nil && v.T.isConst() {
		return true, true
	}
	return false, true
}

// goEq is Go's == on non-string comparable values.
func (x *Exec) goEq(st *State, a, b *Val) *Term {
	t := a.Typ
	if t == nil {
		t = b.Typ
	}
	switch u := t.Underlying().(type) {
	case *types.Slice:
		// only comparison with nil is legal
		other := a
		if a.T == nilSlice {
			other = b
		}
		return Eq(slRef(other.T), IntLit(0))
	case *types.Struct:
		var cs []*Term
		for i := 0; i < u.NumFields(); i++ {
			ft := u.Field(i).Type()
			cs = append(cs, x.goEq(st, &Val{T: TE.Field(t, i, a.T), Typ: ft}, &Val{T: TE.Field(t, i, b.T), Typ: ft}))
		}
		return And(cs...)
	case *types.Basic:
		if u.Info()&types.IsString != 0 {
			return x.strEqual(st, a.T, b.T)
		}
	case *types.Interface:
		// nil comparison or identity
		return Eq(a.T, b.T)
	}
	return Eq(a.T, b.T)
}

func (x *Exec) indexAddr(fr *Frame, st *State, in *ssa.IndexAddr) *Val {
	base := x.get(fr, in.X)
	idx := x.get(fr, in.Index).T
	switch bt := base.Typ.Underlying().(type) {
	case *types.Slice:
		x.oblige(st, "index", And(Ge(idx, IntLit(0)), Lt(idx, slLen(base.T))), in.Pos(), "slice index in range")
		return &Val{Typ: in.Type(), Ptr: &Pointer{kind: pkElem, sl: base.T, idx: idx, elemT: bt.Elem()}}
	case *types.Pointer: // pointer to array
		at := bt.Elem().Underlying().(*types.Array)
		x.oblige(st, "index", And(Ge(idx, IntLit(0)), Lt(idx, IntLit(at.Len()))), in.Pos(), "array index in range")
		p := x.ptrOf(base)
		return &Val{Typ: in.Type(), Ptr: p.extend(pathStep{field: -1, index: idx, typ: bt.Elem()})}
	}
	unsupportedf("IndexAddr on %s", base.Typ)
	return nil
}

func (x *Exec) makeInterface(st *State, v *Val, ifaceT types.Type) *Val {
	tag := IntLit(int64(TE.TagOf(v.Typ)))
	x.checkInv(st, v, token.NoPos, "when converted to an interface")
	if _, isPtr := v.Typ.Underlying().(*types.Pointer); isPtr {
		if v.T == nil && v.Ptr != nil && x.job.fn != nil && x.cutsOnly() && x.pure == 0 {
			// &local handed to a dependency as `any` (json.Unmarshal(data, &v)): in a cuts-only function the pointee is
			// given an arbitrary value here - whatever the callee writes through the pointer is covered
			pt := v.Typ.Underlying().(*types.Pointer).Elem()
			if fv := x.freshVal(st, "boxedptr", pt); fv.T != nil {
				x.store(st, v.Ptr, fv.T)
				x.trusted["A-BOXPTR: a pointer to a local variable converted to an interface (argument of a dependency such as json.Unmarshal) - the variable holds an arbitrary value from that point on; the dependency is assumed to write it only during that call"] = true
				return &Val{T: mkIface(tag, Fresh("boxedref", SInt)), Typ: ifaceT}
			}
		}
		if v.T == nil {
			unsupportedf("MakeInterface of structured pointer")
		}
		// interfaces never hold typed nil pointers: checked here, assumed when a pointer is taken out again
		if !isAllocTerm(v.T) {
			x.oblige(st, "nil-boxed", Neq(v.T, IntLit(0)), token.NoPos, "nil pointer converted to an interface")
		}
		return &Val{T: mkIface(tag, v.T), Typ: ifaceT}
	}
	if v.T == nil {
		// function value in interface etc.
		return &Val{T: mkIface(tag, Fresh("boxed", SInt)), Typ: ifaceT}
	}
	return &Val{T: mkIface(tag, x.box(st, v.T, v.Typ)), Typ: ifaceT}
}

// box/unbox: non-pointer dynamic values are boxed through an injective uninterpreted function.
func (x *Exec) box(st *State, v *Term, t types.Type) *Term {
	name := "box." + shortTypeName(t)
	b := UF(name, SInt, v)
	DeclareFun("un"+name, v.sort, SInt)
	x.ctx.assumeGlobal(st, Eq(App("un"+name, v.sort, b), v))
	return b
}

func (x *Exec) unbox(ref *Term, t types.Type) *Term {
	name := "unbox." + shortTypeName(t)
	s := TE.SortOf(t)
	DeclareFun(name, s, SInt)
	return App(name, s, ref)
}

// dynamic value of an interface as concrete type ct
func (x *Exec) ifaceAs(st *State, iv *Term, ct types.Type) *Val {
	if _, isPtr := ct.Underlying().(*types.Pointer); isPtr {
		r := &Val{T: ifRef(iv), Typ: ct}
		x.ctx.assume(st, Implies(Eq(ifTag(iv), IntLit(int64(TE.TagOf(ct)))), And(Gt(ifRef(iv), IntLit(0)), Lt(ifRef(iv), x.bnd(st, iv)))))
		if inv := x.typeInv(st, r); inv != True {
			x.assumeFact(st, Implies(Eq(ifTag(iv), IntLit(int64(TE.TagOf(ct)))), inv))
		}
		return r
	}
	if _, isSig := ct.Underlying().(*types.Signature); isSig {
		return &Val{T: ifRef(iv), Typ: ct}
	}
	v := x.unbox(ifRef(iv), ct)
	x.assumeTypeB(st, v, ct, x.bnd(st, iv))
	if inv := x.typeInv(st, &Val{T: v, Typ: ct}); inv != True {
		x.assumeFact(st, Implies(Eq(ifTag(iv), IntLit(int64(TE.TagOf(ct)))), inv))
	}
	return &Val{T: v, Typ: ct}
}

func (x *Exec) typeAssert(fr *Frame, st *State, in *ssa.TypeAssert) *Val {
	v := x.get(fr, in.X)
	var ok *Term
	var res *Val
	if isInterface(in.AssertedType) {
		impls := x.prog.implementers(in.AssertedType)
		if impls == nil {
			if it := in.AssertedType.Underlying().(*types.Interface); it.NumMethods() == 0 {
				ok = Neq(ifTag(v.T), IntLit(0))
			} else {
				unsupportedf("type assertion to open interface %s", in.AssertedType)
			}
		} else {
			ok = False
			for _, it := range impls {
				ok = Or(ok, Eq(ifTag(v.T), IntLit(int64(TE.TagOf(it)))))
			}
		}
		res = &Val{T: Ite(ok, v.T, nilIface), Typ: in.AssertedType}
	} else {
		ok = Eq(ifTag(v.T), IntLit(int64(TE.TagOf(in.AssertedType))))
		cv := x.ifaceAs(st, v.T, in.AssertedType)
		res = &Val{T: Ite(ok, cv.T, TE.zeroValue(in.AssertedType)), Typ: in.AssertedType}
	}
	if in.CommaOk {
		return &Val{Typ: in.Type(), Tuple: []*Val{res, {T: ok, Typ: types.Typ[types.Bool]}}}
	}
	x.oblige(st, "typeassert", ok, in.Pos(), "type assertion holds")
	return res
}

func (x *Exec) convert(fr *Frame, st *State, in *ssa.Convert) *Val {
	v := x.get(fr, in.X)
	from := v.Typ.Underlying()
	to := in.Type().Underlying()
	fb, fIsB := from.(*types.Basic)
	tb, tIsB := to.(*types.Basic)
	switch {
	case fIsB && tIsB && fb.Info()&types.IsInteger != 0 && tb.Info()&types.IsInteger != 0:
		// integer conversion: value preserving when in range (A-INT otherwise)
		lo, hi, _ := intRange(in.Type())
		if x.job.checkOverflow {
			x.oblige(st, "convert", And(Le(IntLitStr(lo), v.T), Le(v.T, IntLitStr(hi))), in.Pos(), "integer conversion in range")
		}
		return &Val{T: v.T, Typ: in.Type()}
	case fIsB && tIsB && fb.Info()&types.IsInteger != 0 && tb.Info()&types.IsFloat != 0:
		if k, ok := v.T.intVal(); ok && k > -(1<<52) && k < 1<<52 {
			return &Val{T: realLit(float64(k)), Typ: in.Type()} // exactly representable
		}
		return &Val{T: TS.mk("to_real", "", mkSort("Real"), v.T), Typ: in.Type()}
	case fIsB && tIsB && fb.Info()&types.IsFloat != 0 && tb.Info()&types.IsInteger != 0:
		// truncation toward zero
		r := v.T
		if f, ok := realLitVal[r.id]; ok && f > -(1<<52) && f < 1<<52 {
			return &Val{T: IntLit(int64(f)), Typ: in.Type()}
		}
		fl := TS.mk("to_int", "", SInt, r)
		negfl := Neg(TS.mk("to_int", "", SInt, TS.mk("-", "", mkSort("Real"), r)))
		isNeg := TS.mk("<", "", SBool, r, TS.mk("const", "0.0", mkSort("Real")))
		return &Val{T: Ite(isNeg, negfl, fl), Typ: in.Type()}
	case fIsB && tIsB && fb.Info()&types.IsFloat != 0 && tb.Info()&types.IsFloat != 0:
		return &Val{T: v.T, Typ: in.Type()}
	case fIsB && tIsB && fb.Info()&types.IsInteger != 0 && tb.Info()&types.IsString != 0:
		// string(rune)
		return &Val{T: x.runeToString(st, v.T), Typ: in.Type()}
	case fIsB && fb.Info()&types.IsString != 0:
		if sl, ok := to.(*types.Slice); ok {
			eb := sl.Elem().Underlying().(*types.Basic)
			if eb.Kind() == types.Int32 {
				return x.stringToRunes(st, v.T, in.Type())
			}
			if eb.Kind() == types.Uint8 {
				return x.stringToBytes(st, v.T, in.Type())
			}
		}
	case tIsB && tb.Info()&types.IsString != 0:
		if sl, ok := from.(*types.Slice); ok {
			eb := sl.Elem().Underlying().(*types.Basic)
			if eb.Kind() == types.Int32 {
				return x.runesToString(st, v, in.Type())
			}
			if eb.Kind() == types.Uint8 {
				return x.bytesToString(st, v, in.Type())
			}
		}
	}
	unsupportedf("conversion %s -> %s", v.Typ, in.Type())
	return nil
}

func (x *Exec) sliceOp(fr *Frame, st *State, in *ssa.Slice) *Val {
	base := x.get(fr, in.X)
	var lo, hi *Term
	if in.Low != nil {
		lo = x.get(fr, in.Low).T
	} else {
		lo = IntLit(0)
	}
	switch bt := base.Typ.Underlying().(type) {
	case *types.Basic: // string
		ln := strLen(base.T)
		if in.High != nil {
			hi = x.get(fr, in.High).T
		} else {
			hi = ln
		}
		x.oblige(st, "slice", And(Le(IntLit(0), lo), Le(lo, hi), Le(hi, ln)), in.Pos(), "string slice bounds in range")
		return &Val{T: mkStr(strArr(base.T), Add(strOff(base.T), lo), Sub(hi, lo)), Typ: in.Type()}
	case *types.Slice:
		ln := slLen(base.T)
		if in.High != nil {
			hi = x.get(fr, in.High).T
		} else {
			hi = ln
		}
		// capacity is not modelled: bounds are checked against the length (stricter than Go, never laxer)
		x.oblige(st, "slice", And(Le(IntLit(0), lo), Le(lo, hi), Le(hi, ln)), in.Pos(), "slice bounds in range")
		// the cut position is a term of interest for the quantified facts about the slice's elements
		if _, isLit := lo.intVal(); !isLit {
			x.addReadInterest(st, x.elemArr(st, bt.Elem(), slRef(base.T)), slOff(base.T), lo)
		}
		return &Val{T: mkSlice(slRef(base.T), Add(slOff(base.T), lo), Sub(hi, lo)), Typ: in.Type()}
	}
	if pt, ok := base.Typ.Underlying().(*types.Pointer); ok {
		if at, ok := pt.Elem().Underlying().(*types.Array); ok {
			// slicing an array: the slice gets its own backing object initialised with the array's current contents
			// (writes through the array after slicing are not reflected; the compiler-generated variadic pattern never does that)
			p := x.ptrOf(base)
			arr := x.load(st, p)
			if in.High != nil {
				hi = x.get(fr, in.High).T
			} else {
				hi = IntLit(at.Len())
			}
			x.oblige(st, "slice", And(Le(IntLit(0), lo), Le(lo, hi), Le(hi, IntLit(at.Len()))), in.Pos(), "array slice bounds in range")
			ref := x.allocRef(st)
			x.ctx.hwrite(st, arrMapName(at.Elem()), arraySort(SInt, TE.SortOf(at.Elem())), ref, arr)
			return &Val{T: mkSlice(ref, lo, Sub(hi, lo)), Typ: in.Type()}
		}
	}
	unsupportedf("Slice on %s", base.Typ)
	return nil
}

// isAllocTerm: ref is syntactically an allocation made during this job (alloc counter plus a constant).
func isAllocTerm(t *Term) bool {
	for t.op == "+" && len(t.args) == 2 {
		if _, ok := t.args[1].intVal(); !ok {
			return false
		}
		t = t.args[0]
	}
	return t.op == "sym" && strings.HasPrefix(t.val, "alloc")
}

// divFacts states the defining properties of Euclidean div/mod for a symbolic divisor
// (the solvers treat these as non-linear and do not derive them on their own).
func (x *Exec) divFacts(st *State, a, b *Term) {
	if _, ok := b.intVal(); ok {
		return
	}
	if hasFreeBound(a) || hasFreeBound(b) {
		return
	}
	for _, num := range []*Term{a, Neg(a)} {
		q, r := EDiv(num, b), EMod(num, b)
		x.ctx.assumeGlobal(st, Implies(Gt(b, IntLit(0)), And(Le(IntLit(0), r), Lt(r, b), Eq(num, Add(Mul(b, q), r)))))
	}
	abs := func(t *Term) *Term { return Ite(Ge(t, IntLit(0)), t, Neg(t)) }
	q, r := EDiv(abs(a), abs(b)), EMod(abs(a), abs(b))
	x.ctx.assumeGlobal(st, Implies(Neq(b, IntLit(0)), And(Le(IntLit(0), r), Lt(r, abs(b)), Eq(abs(a), Add(Mul(abs(b), q), r)))))
}

// sumVar returns the canonical bound variable for a summation index name (one per name and job), so that
// re-evaluating the same sum expression yields the identical body term.
func (x *Exec) sumVar(name string, sort *Sort) *Term {
	if x.sumVars == nil {
		x.sumVars = map[string]*Term{}
	}
	key := name + ":" + sort.Name
	if v, ok := x.sumVars[key]; ok {
		return v
	}
	v := BoundVar("sum."+name, sort)
	x.sumVars[key] = v
	return v
}

// sumTerm: finite sums as an uninterpreted function of the bounds (and of outer bound variables), defined by
// its two unfolding axioms: sum(lo,hi) = 0 for hi <= lo, and sum(lo,hi) = sum(lo,hi-1) + body[hi-1] for lo < hi.
func (x *Exec) sumTerm(st *State, bv, body, lo, hi *Term) *Term {
	return x.sumTermSrc(st, bv, body, lo, hi, "")
}

func (x *Exec) sumTermSrc(st *State, bv, body, lo, hi *Term, src string) *Term {
	free := freeBound(body, map[int]map[int]bool{})
	var outer []*Term
	var collect func(t *Term)
	seen := map[int]bool{}
	collect = func(t *Term) {
		if seen[t.id] {
			return
		}
		seen[t.id] = true
		if t.op == "bound" && free[t.id] && t != bv {
			outer = append(outer, t)
		}
		for _, a := range t.args {
			collect(a)
		}
	}
	collect(body)
	name := fmt.Sprintf("sum#%d", body.id)
	if x.sumDefs == nil {
		x.sumDefs = map[string]*sumDef{}
	}
	if _, known := x.sumDefs[name]; !known {
		x.sumDefs[name] = &sumDef{bv: bv, body: body, outer: outer, src: src}
		if src != "" {
			if x.sumBySrc == nil {
				x.sumBySrc = map[string][]string{}
			}
			x.sumBySrc[src] = append(x.sumBySrc[src], name)
		}
	}
	args := append(append([]*Term{}, outer...), lo, hi)
	var sorts []*Sort
	for _, a := range args {
		sorts = append(sorts, a.sort)
	}
	DeclareFun(name, SInt, sorts...)
	if !x.atDeclared[name] {
		if x.atDeclared == nil {
			x.atDeclared = map[string]bool{}
		}
		x.atDeclared[name] = true
		// axioms, universally quantified over the bounds and the outer bound variables
		var qv []*Term
		sub := map[int]*Term{}
		for _, o := range outer {
			nv := BoundVar("o", o.sort)
			qv = append(qv, nv)
			sub[o.id] = nv
		}
		l := BoundVar("lo", SInt)
		h := BoundVar("hi", SInt)
		mkApp := func(a, b *Term) *Term {
			return App(name, SInt, append(append([]*Term{}, qv...), a, b)...)
		}
		sub[bv.id] = Sub(h, IntLit(1))
		last := substTerm(body, sub)
		all := append(append([]*Term{}, qv...), l, h)
		x.ctx.assumeGlobal(st, Forall(all, And(
			Implies(Le(h, l), Eq(mkApp(l, h), IntLit(0))),
			Implies(Lt(l, h), Eq(mkApp(l, h), Add(mkApp(l, Sub(h, IntLit(1))), last)))),
			[]*Term{mkApp(l, h)}))
	}
	res := App(name, SInt, args...)
	x.unfoldSum(st, res)
	return res
}

type sumDef struct {
	bv    *Term
	body  *Term
	outer []*Term
	src   string // source identity of the sum expression (spec function and position)
}

// linkSums: the same source-level sum evaluated in two program states gives two uninterpreted functions (the
// summands read different heap versions). For an application A(args, lo, hi) and each sibling B of the same source
// expression:  A(args,lo,hi) == B(args,lo,hi)  or  the summands differ at some index w in [lo,hi)
// (extensionality of finite sums, with a named witness). The solver then only has to show, by the usual frame
// reasoning at the single index w, that the summands agree.
func (x *Exec) linkSums(st *State, app *Term) {
	def, ok := x.sumDefs[app.op]
	if !ok || def.src == "" || hasFreeBound(app) {
		return
	}
	n := len(def.outer)
	if len(app.args) != n+2 {
		return
	}
	actuals := app.args[:n]
	lo, hi := app.args[n], app.args[n+1]
	for _, other := range x.sumBySrc[def.src] {
		if other == app.op {
			continue
		}
		od := x.sumDefs[other]
		if od == nil || len(od.outer) != n {
			continue
		}
		sameSorts := true
		for i := range od.outer {
			if od.outer[i].sort != def.outer[i].sort {
				sameSorts = false
			}
		}
		if !sameSorts {
			continue
		}
		key := [2]int{app.id, -1000 - len(other)*131 - int(other[len(other)-1])}
		k3 := [3]int{app.id, -77, hashString(other)}
		_ = key
		if x.instSeen == nil {
			x.instSeen = map[[3]int]bool{}
		}
		if x.instSeen[k3] {
			continue
		}
		if x.atWitness > 0 {
			// no links from instances made at the witness of another link: that chain would not end
			return
		}
		if x.nlinks >= nlinkCap() {
			return
		}
		x.nlinks++
		x.instSeen[k3] = true
		sib := App(other, SInt, append(append([]*Term{}, actuals...), lo, hi)...)
		w := Fresh("sumw", SInt)
		subA := map[int]*Term{def.bv.id: w}
		subB := map[int]*Term{od.bv.id: w}
		for i := range def.outer {
			subA[def.outer[i].id] = actuals[i]
			subB[od.outer[i].id] = actuals[i]
		}
		ba := substTerm(def.body, subA)
		bb := substTerm(od.body, subB)
		x.ctx.facts = append(x.ctx.facts, Or(Eq(app, sib), And(Le(lo, w), Lt(w, hi), Neq(ba, bb))))
		x.linkAtTerms(ba)
		x.linkAtTerms(bb)
		x.typeReadsIn(st, ba)
		x.typeReadsIn(st, bb)
		// the reads at the witness index are terms of interest for the hypotheses about those arrays
		x.interestFromGoal(st, ba)
		x.interestFromGoal(st, bb)
	}
}

func hashString(s string) int {
	h := 0
	for i := 0; i < len(s); i++ {
		h = h*31 + int(s[i])
	}
	return h
}

// unfoldSum adds the one-step unfolding of a ground sum application (eager instance of the defining axioms).
func (x *Exec) unfoldSum(st *State, app *Term) {
	def, ok := x.sumDefs[app.op]
	if !ok || hasFreeBound(app) {
		return
	}
	key := [2]int{app.id, -21}
	if x.qseen[key] {
		return
	}
	x.qseen[key] = true
	n := len(def.outer)
	actuals := app.args[:n]
	lo, hi := app.args[n], app.args[n+1]
	sub := map[int]*Term{def.bv.id: Sub(hi, IntLit(1))}
	for i, o := range def.outer {
		sub[o.id] = actuals[i]
	}
	last := substTerm(def.body, sub)
	prev := App(app.op, SInt, append(append([]*Term{}, actuals...), lo, Sub(hi, IntLit(1)))...)
	x.ctx.facts = append(x.ctx.facts, And(
		Implies(Le(hi, lo), Eq(app, IntLit(0))),
		Implies(Lt(lo, hi), Eq(app, Add(prev, last)))))
	x.linkAtTerms(last)
	x.linkSums(st, app)
}

// substTerm replaces bound variables (by id) in t.
func substTerm(t *Term, sub map[int]*Term) *Term {
	memo := map[int]*Term{}
	var f func(t *Term) *Term
	f = func(t *Term) *Term {
		if r, ok := sub[t.id]; ok {
			return r
		}
		if len(t.args) == 0 {
			return t
		}
		if r, ok := memo[t.id]; ok {
			return r
		}
		changed := false
		na := make([]*Term, len(t.args))
		for i, a := range t.args {
			na[i] = f(a)
			if na[i] != a {
				changed = true
			}
		}
		r := t
		if changed {
			r = rebuildTerm(t, na)
		}
		memo[t.id] = r
		return r
	}
	return f(t)
}

// rebuildTerm re-creates t with new arguments through the simplifying constructors, so that e.g. an accessor applied
// to a substituted constructor term collapses (sl.ref(mkSlice(r, o, n)) = r) and backing-object keys stay comparable.
func rebuildTerm(t *Term, na []*Term) *Term {
	if os.Getenv("GOVC_NOREBUILD") != "" {
		return TS.mk(t.op, t.val, t.sort, na...)
	}
	switch t.op {
	case "+":
		if len(na) == 2 {
			return Add(na[0], na[1])
		}
	case "-":
		if len(na) == 2 {
			return Sub(na[0], na[1])
		}
	case "select":
		if len(na) == 2 {
			return Select(na[0], na[1])
		}
	case "ite":
		if len(na) == 3 {
			return Ite(na[0], na[1], na[2])
		}
	case "=":
		if len(na) == 2 {
			return Eq(na[0], na[1])
		}
	case "and":
		return And(na...)
	case "or":
		return Or(na...)
	case "not":
		if len(na) == 1 {
			return Not(na[0])
		}
	case "=>":
		if len(na) == 2 {
			return Implies(na[0], na[1])
		}
	case "<":
		if len(na) == 2 {
			return Lt(na[0], na[1])
		}
	case "<=":
		if len(na) == 2 {
			return Le(na[0], na[1])
		}
	}
	if len(na) == 1 && t.val != "" && isCtor(na[0]) {
		if idx, err := strconv.Atoi(t.val); err == nil && idx < len(na[0].args) {
			if _, isFun := TS.funs[t.op]; !isFun {
				return na[0].args[idx] // accessor of a constructor term
			}
		}
	}
	return TS.mk(t.op, t.val, t.sort, na...)
}

func nlinkCap() int {
	if v := os.Getenv("GOVC_NLINKS"); v != "" {
		n, _ := strconv.Atoi(v)
		return n
	}
	return 400
}

// function constants: closures stored in data structures
type fnConst struct {
	term *Term
	clo  *Closure
}

func (x *Exec) fnConst(c *Closure) *Term {
	for _, fc := range x.fnConsts {
		if fc.clo == c {
			return fc.term
		}
	}
	t := IntLit(int64(7000000 + len(x.fnConsts)))
	x.fnConsts = append(x.fnConsts, fnConst{term: t, clo: c})
	return t
}

func (x *Exec) cutsOnly() bool {
	c := x.prog.contractFor(x.job.fn)
	return c != nil && c.CutsOnly
}

// cutCallName: the name by which the `before <callee>` clauses of contract c address the call in ("" if none).
func cutCallName(c *Contract, in *ssa.Call) string {
	name := ""
	if in.Call.IsInvoke() {
		name = in.Call.Method.Name()
	} else if f := in.Call.StaticCallee(); f != nil {
		name = f.Name()
		// an instance of a generic function is also addressed by the generic function's name
		if o := f.Origin(); o != nil && o != f {
			for _, cl := range c.Clauses {
				if (cl.Kind == "assert" || cl.Kind == "bind") && (cl.Name == o.Name() || strings.HasPrefix(cl.Name, o.Name()+"#")) {
					name = o.Name()
				}
			}
		}
	}
	if name == "" {
		// a call through a function-typed field (p.ParseOne(...)): addressed by the field's name
		switch v := in.Call.Value.(type) {
		case *ssa.Parameter:
			// a call of a function-typed parameter: addressed by the parameter's name
			name = v.Name()
		case *ssa.Field:
			if st, ok := v.X.Type().Underlying().(*types.Struct); ok {
				name = st.Field(v.Field).Name()
			}
		case *ssa.UnOp:
			if fa, ok := v.X.(*ssa.FieldAddr); ok {
				if pt, ok := fa.X.Type().Underlying().(*types.Pointer); ok {
					if st, ok := pt.Elem().Underlying().(*types.Struct); ok {
						name = st.Field(fa.Field).Name()
					}
				}
			}
		}
	}
	return name
}

// cutReach: the blocks of fn from which a call addressed by a `before` clause of c can still be reached.
func cutReach(c *Contract, fn *ssa.Function) map[*ssa.BasicBlock]bool {
	named := map[string]bool{}
	for _, cl := range c.Clauses {
		if cl.Kind == "assert" || cl.Kind == "bind" {
			n := cl.Name
			if i := strings.IndexByte(n, '#'); i >= 0 {
				n = n[:i]
			}
			named[n] = true
		}
	}
	reach := map[*ssa.BasicBlock]bool{}
	var work []*ssa.BasicBlock
	for _, b := range fn.Blocks {
		for _, ins := range b.Instrs {
			if call, ok := ins.(*ssa.Call); ok && named[cutCallName(c, call)] {
				if !reach[b] {
					reach[b] = true
					work = append(work, b)
				}
			}
		}
	}
	for len(work) > 0 {
		b := work[len(work)-1]
		work = work[:len(work)-1]
		for _, p := range b.Preds {
			if !reach[p] {
				reach[p] = true
				work = append(work, p)
			}
		}
	}
	return reach
}

// cutMatches: a `before` clause addresses every call of the named callee, or - written callee#k - only the k-th call
// of it in the function's source text.
func cutMatches(clauseName, callName string, ord int) bool {
	if clauseName == callName {
		return true
	}
	return clauseName == fmt.Sprintf("%s#%d", callName, ord)
}

// callOrdinal: 1 + the number of calls addressed by the same name that precede this one in the source text.
func callOrdinal(c *Contract, in *ssa.Call, name string) int {
	n := 1
	for _, b := range in.Parent().Blocks {
		for _, ins := range b.Instrs {
			if call, ok := ins.(*ssa.Call); ok && call != in && call.Pos() < in.Pos() && cutCallName(c, call) == name {
				n++
			}
		}
	}
	return n
}

// unboundBind: the first name in the cut's expression that a `bind` clause of the contract defines but that has no
// value yet on this path.
func (x *Exec) unboundBind(fr *Frame, cl *Clause) string {
	binds := map[string]bool{}
	for _, c := range fr.contract.Clauses {
		if c.Kind == "bind" {
			binds[c.Bind] = true
		}
	}
	out := ""
	ast.Inspect(cl.Expr, func(n ast.Node) bool {
		if id, ok := n.(*ast.Ident); ok && out == "" && binds[id.Name] {
			if _, has := fr.lets[id.Name]; !has {
				out = id.Name
			}
		}
		return true
	})
	return out
}

// trivialEnsures: the contract promises nothing about the function's results (every ensures clause is `true`).
func (c *Contract) trivialEnsures() bool {
	for _, cl := range c.Clauses {
		if cl.Kind == "ensures" && strings.TrimSpace(cl.Src) != "true" {
			return false
		}
	}
	return true
}

// addresses: some `before` clause of the contract addresses calls of this name (plain or with an ordinal).
func (c *Contract) addresses(name string) bool {
	for _, cl := range c.Clauses {
		if cl.Kind == "assert" || cl.Kind == "bind" {
			n := cl.Name
			if i := strings.IndexByte(n, '#'); i >= 0 {
				n = n[:i]
			}
			if n == name {
				return true
			}
		}
	}
	return false
}
