package main

// SMT script generation and solver portfolio.

import (
	"bytes"
	"context"
	"fmt"
	"os"
	"os/exec"
	"path/filepath"
	"strings"
		"time"
)

const incrementalTimeoutMs = 5000
const chunkSize = 24

type SolverCfg struct {
	TimeoutMs int
	Dir       string // where to keep scripts of failed obligations
	Keep      bool
	Quick     map[string]bool // obligations listed as undecided: one cheap attempt only (they are not counted either way)
}

func preamble(timeoutMs int) string {
	var sb strings.Builder
	sb.WriteString("(set-option :produce-models true)\n")
	sb.WriteString(fmt.Sprintf("(set-option :timeout %d)\n", timeoutMs))
	sb.WriteString(preludeDatatypes)
	sb.WriteString(calendarPreamble)
	for _, d := range TE.decls {
		sb.WriteString(d + "\n")
	}
	return sb.String()
}

// inputTerms lists scalar terms whose model values describe the function inputs.
func inputTerms(j *Job) []*Term {
	var out []*Term
	for _, in := range j.Inputs {
		out = append(out, valTerms(in.Val)...)
	}
	return out
}

func valTerms(v *Val) []*Term {
	if v == nil {
		return nil
	}
	if v.Tuple != nil {
		var out []*Term
		for _, e := range v.Tuple {
			out = append(out, valTerms(e)...)
		}
		return out
	}
	if v.T != nil {
		return []*Term{v.T}
	}
	if v.Ptr != nil && v.Ptr.ref != nil {
		return []*Term{v.Ptr.ref}
	}
	return nil
}

// buildIncremental builds one incremental script for all obligations of a job.
// pendingObls lists the obligations of a job that still need a solver.
func pendingObls(j *Job) []*Obligation {
	var todo []*Obligation
	for _, o := range j.Obls {
		if o.Status == "" {
			todo = append(todo, o)
		}
	}
	return todo
}

// buildIncremental builds one incremental script for a chunk of obligations (in generation order).
func buildIncremental(j *Job, todo []*Obligation, timeoutMs int, dropQ bool) string {
	sc := NewScript()
	sc.dropQ = dropQ
	if dropQ {
		sc.Raw(opaqueCalendar(preamble(timeoutMs)))
	} else {
		sc.Raw(preamble(timeoutMs))
	}
	asserted := 0
	ins := inputTerms(j)
	var skFacts []int
	for i, o := range todo {
		for asserted < o.NFact && asserted < len(j.Facts) {
			if hasSkolem(j, j.Facts[asserted]) {
				skFacts = append(skFacts, asserted) // asserted inside the scope of the obligation it was made for
			} else {
				sc.Assert(j.Facts[asserted])
			}
			asserted++
		}
		gsk := goalSkolems(j, o)
		sc.prepare(o.PC, o.Goal)
		for _, t := range conjuncts(o.Goal) {
			sc.prepare(t)
		}
		for _, t := range ins {
			sc.prepare(t)
		}
		var scoped []*Term
		if len(gsk) > 0 {
			for _, fi := range skFacts {
				if fi < o.NFact && !foreignSkolem(j, j.Facts[fi], gsk) {
					scoped = append(scoped, sc.Pre(j.Facts[fi]))
				}
			}
		}
		scoped = append(scoped, sc.Pre(And(o.PC, Not(o.Goal))))
		sc.Raw("(push 1)")
		for _, t := range scoped {
			sc.AssertPre(t)
		}
		sc.Raw(fmt.Sprintf("(echo \"@@BEGIN %d\")", i))
		sc.Raw("(check-sat)")
		sc.Raw(fmt.Sprintf("(echo \"@@MODEL %d\")", i))
		if len(ins) > 0 && o.Kind != "pre-sat" {
			var sb strings.Builder
			sb.WriteString("(get-value (")
			for k, t := range ins {
				if k > 0 {
					sb.WriteByte(' ')
				}
				sb.WriteString(sc.TermString(t))
			}
			sb.WriteString("))")
			sc.Raw(sb.String())
		}
		if o.Kind != "pre-sat" {
			if cj := conjuncts(o.Goal); len(cj) > 1 {
				var sb strings.Builder
				sb.WriteString("(get-value (")
				for k, t := range cj {
					if k > 0 {
						sb.WriteByte(' ')
					}
					sb.WriteString(sc.TermString(t))
				}
				sb.WriteString("))")
				sc.Raw("(echo \"@@CONJ\")")
				sc.Raw(sb.String())
			}
		}
		sc.Raw(fmt.Sprintf("(echo \"@@END %d\")", i))
		sc.Raw("(pop 1)")
	}
	return sc.String()
}

// buildSingle builds a standalone script for one obligation.
func buildSingle(j *Job, o *Obligation, timeoutMs int, withModel bool, extra ...*Term) string {
	return buildSingleQ(j, o, timeoutMs, withModel, false, extra...)
}

func buildSingleQ(j *Job, o *Obligation, timeoutMs int, withModel bool, dropQ bool, extra ...*Term) string {
	sc := NewScript()
	sc.dropQ = dropQ
	sc.Raw(preamble(timeoutMs))
	// facts assumed on a path that contradicts the obligation's path condition are irrelevant (dropping them is sound)
	pcLits := map[int]bool{}
	for _, l := range conjList(o.PC) {
		pcLits[l.id] = true
	}
	gsk := goalSkolems(j, o)
	for i := 0; i < o.NFact && i < len(j.Facts); i++ {
		f := j.Facts[i]
		if foreignSkolem(j, f, gsk) {
			continue
		}
		if f.op == "=>" {
			dead := false
			for _, g := range conjList(f.args[0]) {
				if pcLits[Not(g).id] {
					dead = true
					break
				}
			}
			if dead {
				continue
			}
		}
		sc.Assert(f)
	}
	for _, e := range extra {
		sc.Assert(e)
	}
	sc.Assert(And(o.PC, Not(o.Goal)))
	sc.Raw("(check-sat)")
	if withModel {
		ins := inputTerms(j)
		if len(ins) > 0 {
			var sb strings.Builder
			sb.WriteString("(get-value (")
			for k, t := range ins {
				if k > 0 {
					sb.WriteByte(' ')
				}
				sb.WriteString(sc.TermString(t))
			}
			sb.WriteString("))")
			sc.Raw(sb.String())
		}
	}
	return sc.String()
}

func runSolver(ctx context.Context, bin string, args []string, script string) (string, error) {
	cmd := exec.CommandContext(ctx, bin, args...)
	cmd.Stdin = strings.NewReader(script)
	var out bytes.Buffer
	cmd.Stdout = &out
	cmd.Stderr = &out
	err := cmd.Run()
	return out.String(), err
}

// solvePrepared runs the incremental script of a job on z3-new and records the answers.
func solvePrepared(j *Job, script string, todo []*Obligation, cfg SolverCfg) {
	if cfg.Keep {
		os.MkdirAll(cfg.Dir, 0o755)
		os.WriteFile(filepath.Join(cfg.Dir, sanitizeFile(j.Name)+".smt2"), []byte(script), 0o644)
	}
	start := time.Now()
	total := time.Duration(incrementalTimeoutMs*len(todo)+20000) * time.Millisecond
	ctx, cancel := context.WithTimeout(context.Background(), total)
	out, _ := runSolver(ctx, "z3-new", []string{"-in", "smt.array.extensional=false"}, script)
	cancel()
	parseIncremental(out, todo, time.Since(start).Seconds())
	for _, o := range todo {
		// `sat` without extensionality is only a hint: the portfolio decides
		if o.Status == "failed" && o.Kind != "pre-sat" {
			o.Status, o.Model, o.Conj = "unknown", nil, nil
		}
	}
}

func sanitizeFile(s string) string {
	r := strings.NewReplacer("/", "_", "*", "", "(", "", ")", "", " ", "", "$", "_", "[", "_", "]", "_", "#", "_", ":", "_")
	return r.Replace(s)
}

func parseIncremental(out string, todo []*Obligation, elapsed float64) {
	// split on markers
	per := elapsed / float64(len(todo))
	for i, o := range todo {
		b := fmt.Sprintf("@@BEGIN %d", i)
		m := fmt.Sprintf("@@MODEL %d", i)
		e := fmt.Sprintf("@@END %d", i)
		bi := strings.Index(out, b)
		mi := strings.Index(out, m)
		ei := strings.Index(out, e)
		if bi < 0 || mi < 0 || ei < 0 {
			o.Status = "unknown"
			o.Output = "no solver answer (crash or global timeout)"
			continue
		}
		res := strings.TrimSpace(out[bi+len(b) : mi])
		res = strings.Trim(res, "\"\n ")
		prefixEnd := bi
		if strings.Contains(out[:prefixEnd], "(error") && !incrementalErrorsBenign(out[:prefixEnd]) {
			o.Status = "unknown"
			o.Output = "solver reported an error earlier in the script: " + firstErrorLine(out[:prefixEnd])
			continue
		}
		model := strings.TrimSpace(out[mi+len(m) : ei])
		o.Secs = per
		o.Solver = "z3-5.1.0-noext"
		first := strings.SplitN(strings.TrimSpace(res), "\n", 2)[0]
		switch first {
		case "unsat":
			o.Status = "proved"
		case "sat":
			o.Status = "failed"
			o.Output = strings.Trim(model, "\"\n ")
			if ci := strings.Index(o.Output, "@@CONJ"); ci >= 0 {
				cj := o.Output[ci+len("@@CONJ"):]
				o.Output = strings.Trim(o.Output[:ci], "\"\n ")
				o.Conj = conjValues(cj)
			}
			o.Model = parseModel(o.Output)
		default:
			o.Status = "unknown"
			o.Output = res
		}
	}
}

func parseModel(s string) map[string]string {
	s = strings.TrimSpace(s)
	if !strings.HasPrefix(s, "((") {
		return nil
	}
	m := map[string]string{}
	// top-level list of (term value) pairs
	depth := 0
	start := -1
	for i, c := range s {
		switch c {
		case '(':
			depth++
			if depth == 2 {
				start = i
			}
		case ')':
			if depth == 2 && start >= 0 {
				pair := s[start+1 : i]
				k, v := splitPair(pair)
				m[k] = v
				start = -1
			}
			depth--
		}
	}
	return m
}

func splitPair(p string) (string, string) {
	p = strings.TrimSpace(p)
	if strings.HasPrefix(p, "(") {
		depth := 0
		for i, c := range p {
			if c == '(' {
				depth++
			} else if c == ')' {
				depth--
				if depth == 0 {
					return strings.TrimSpace(p[:i+1]), strings.TrimSpace(p[i+1:])
				}
			}
		}
	}
	if strings.HasPrefix(p, "|") {
		j := strings.Index(p[1:], "|")
		return p[:j+2], strings.TrimSpace(p[j+2:])
	}
	i := strings.IndexAny(p, " \n")
	if i < 0 {
		return p, ""
	}
	return p[:i], strings.TrimSpace(p[i+1:])
}

type solverDef struct {
	name     string
	bin      string
	args     []string
	satOK    bool // a `sat` answer of this configuration is trusted (unsat always is)
}

// Array extensionality is switched off in one configuration: it only removes inferences, so `unsat`
// stays sound, and it avoids a blow-up on the heap encodings; its `sat` answers are not used.
var solvers = []solverDef{
	// same core as the chunked first stage (z3 switches to its incremental smt core after a push)
	{"z3-5.1.0-noext-inc", "z3-new", []string{"-in", "smt.array.extensional=false"}, false},
	{"z3-5.1.0-noext-opaquecal", "z3-new", []string{"-in", "smt.array.extensional=false"}, false},
	{"z3-5.1.0-noext", "z3-new", []string{"-in", "smt.array.extensional=false"}, false},
	{"z3-5.1.0", "z3-new", []string{"-in"}, true},
	{"z3-4.8.12", "/usr/bin/z3", []string{"-in"}, true},
	{"cvc5-1.0", "cvc5", []string{"--lang=smt2", "--produce-models"}, true},
}

// portfolioScript races the solvers on a single obligation.
func portfolioScript(j *Job, o *Obligation, script string, cfg SolverCfg) {
	if cfg.Keep {
		os.MkdirAll(cfg.Dir, 0o755)
		os.WriteFile(filepath.Join(cfg.Dir, sanitizeFile(o.Name)+".smt2"), []byte(script), 0o644)
	}
	type res struct {
		solver, out string
		secs        float64
	}
	ctx, cancel := context.WithTimeout(context.Background(), time.Duration(cfg.TimeoutMs+3000)*time.Millisecond)
	defer cancel()
	ch := make(chan res, len(solvers))
	for _, s := range solvers {
		go func(s solverDef) {
			t0 := time.Now()
			args := s.args
			if strings.HasPrefix(s.name, "cvc5") {
				args = append(append([]string{}, args...), fmt.Sprintf("--tlimit=%d", cfg.TimeoutMs))
			}
			sc := script
			if strings.HasPrefix(s.name, "cvc5") {
				sc = "(set-logic ALL)\n" + script
			}
			if strings.HasSuffix(s.name, "-opaquecal") {
				if !strings.Contains(sc, "(cal.dn ") {
					ch <- res{s.name, "unknown (not applicable)", 0}
					return
				}
				sc = opaqueCalendar(sc)
			}
			if strings.HasSuffix(s.name, "-inc") {
				sc = strings.Replace(sc, "(check-sat)", "(push 1)\n(check-sat)", 1)
			}
			out, _ := runSolver(ctx, s.bin, args, sc)
			ch <- res{s.name, out, time.Since(t0).Seconds()}
		}(s)
	}
	var outs []string
	for range solvers {
		r := <-ch
		first, rest0 := solverAnswer(r.out)
		_ = rest0
		if first == "unsat" {
			if o.Kind == "pre-sat" {
				o.Status = "proved" // precondition unsatisfiable: reported by caller as vacuous
			} else {
				o.Status = "proved"
			}
			o.Solver = r.solver
			o.Secs = r.secs
			cancel()
			return
		}
		if first == "sat" && !satTrusted(r.solver) {
			outs = append(outs, r.solver+": sat (not trusted without extensionality)")
			continue
		}
		if first == "sat" {
			o.Status = "failed"
			o.Solver = r.solver
			o.Secs = r.secs
			o.Output = strings.TrimSpace(rest0)
			o.Model = parseModel(o.Output)
			cancel()
			return
		}
		outs = append(outs, r.solver+": "+strings.TrimSpace(firstLines(r.out, 3)))
	}
	o.Status = "unknown"
	o.Output = strings.Join(outs, " | ")
	if cfg.Keep {
		os.MkdirAll(cfg.Dir, 0o755)
		os.WriteFile(filepath.Join(cfg.Dir, sanitizeFile(o.Name)+".smt2"), []byte(script), 0o644)
	}
}

func firstLines(s string, n int) string {
	ls := strings.Split(s, "\n")
	if len(ls) > n {
		ls = ls[:n]
	}
	return strings.Join(ls, " / ")
}

// conjuncts flattens a goal (through implications with a common premise) into its top-level conjuncts.
func conjuncts(g *Term) []*Term {
	switch g.op {
	case "and":
		var out []*Term
		for _, a := range g.args {
			out = append(out, conjuncts(a)...)
		}
		return out
	case "=>":
		var out []*Term
		for _, c := range conjuncts(g.args[1]) {
			out = append(out, Implies(g.args[0], c))
		}
		return out
	}
	return []*Term{g}
}

// conjValues extracts the truth values of the goal's conjuncts from a get-value answer (in order).
func conjValues(s string) []bool {
	var out []bool
	s = strings.TrimSpace(strings.Trim(strings.TrimSpace(s), "\""))
	depth := 0
	start := -1
	for i, c := range s {
		switch c {
		case '(':
			depth++
			if depth == 2 {
				start = i
			}
		case ')':
			if depth == 2 && start >= 0 {
				pair := strings.TrimSpace(s[start+1 : i])
				out = append(out, strings.HasSuffix(pair, "true"))
				start = -1
			}
			depth--
		}
	}
	return out
}

// solverAnswer finds the check-sat answer in a solver's output (skipping warnings and "unsupported" lines).
func solverAnswer(out string) (string, string) {
	lines := strings.Split(out, "\n")
	for i, l := range lines {
		t := strings.TrimSpace(l)
		if strings.HasPrefix(t, "(error") && !strings.Contains(t, "model is not available") && !strings.Contains(t, "Cannot get value") {
			// a malformed script proves nothing
			return "", out
		}
		if t == "sat" || t == "unsat" || t == "unknown" {
			return t, strings.Join(lines[i+1:], "\n")
		}
	}
	return "", out
}

// splitScripts: case split over the finite domains recorded for the job (complete because each domain is implied by an assumed type invariant).
func splitCases(j *Job) [][]*Term {
	if len(j.Domains) == 0 {
		return nil
	}
	cases := [][]*Term{{}}
	for _, d := range j.Domains {
		var nx [][]*Term
		for _, c := range cases {
			for _, v := range d.vals {
				nx = append(nx, append(append([]*Term{}, c...), Eq(d.t, IntLit(v))))
			}
		}
		cases = nx
		if len(cases) > 64 {
			return nil
		}
	}
	return cases
}

func satTrusted(name string) bool {
	for _, s := range solvers {
		if s.name == name {
			return s.satOK
		}
	}
	return false
}

func incrementalErrorsBenign(s string) bool {
	for _, l := range strings.Split(s, "\n") {
		if strings.Contains(l, "(error") && !strings.Contains(l, "model is not available") {
			return false
		}
	}
	return true
}

func firstErrorLine(s string) string {
	for _, l := range strings.Split(s, "\n") {
		if strings.Contains(l, "(error") && !strings.Contains(l, "model is not available") {
			return strings.TrimSpace(l)
		}
	}
	return ""
}

func hasQuant(t *Term, memo map[int]bool) bool {
	if v, ok := memo[t.id]; ok {
		return v
	}
	r := t.op == "forall" || t.op == "exists"
	if !r {
		for _, a := range t.args {
			if hasQuant(a, memo) {
				r = true
				break
			}
		}
	}
	memo[t.id] = r
	return r
}

// explainScript: the obligation with every quantified fact dropped; a model of it shows which ground
// instances are missing. Prints the truth value of each conjunct of the goal and of the given probes.
func explainScript(j *Job, o *Obligation) (string, []*Term) {
	sc := NewScript()
	sc.Raw(preamble(0))
	memo := map[int]bool{}
	for i := 0; i < o.NFact && i < len(j.Facts); i++ {
		if !hasQuant(j.Facts[i], memo) {
			sc.Assert(j.Facts[i])
		}
	}
	cj := conjuncts(o.Goal)
	var probes []*Term
	for _, c := range cj {
		if !hasQuant(c, memo) {
			probes = append(probes, c)
		}
	}
	// also the integer atoms compared in failing conjuncts
	for _, c := range cj {
		collectArith(c, &probes, map[int]bool{})
	}
	if pat := os.Getenv("GOVC_EXPLAIN_FACTS"); pat != "" {
		// probe the guards and bodies of instance facts that mention a given constant or symbol
		for i := 0; i < o.NFact && i < len(j.Facts); i++ {
			f := j.Facts[i]
			if hasQuant(f, memo) || !strings.Contains(f.String(), pat) {
				continue
			}
			for f.op == "=>" {
				probes = append(probes, f.args[0])
				f = f.args[1]
			}
			probes = append(probes, f)
		}
	}
	if !hasQuant(o.PC, memo) && !hasQuant(o.Goal, memo) {
		sc.Assert(And(o.PC, Not(o.Goal)))
	} else {
		sc.Assert(o.PC)
	}
	for _, t := range probes {
		sc.prepare(t)
	}
	sc.Raw("(check-sat)")
	var sb strings.Builder
	sb.WriteString("(get-value (")
	for k, t := range probes {
		if k > 0 {
			sb.WriteByte(' ')
		}
		sb.WriteString(sc.TermString(t))
	}
	sb.WriteString("))")
	sc.Raw(sb.String())
	return strings.Replace(sc.String(), "(set-option :timeout 0)\n", "", 1), probes
}

func collectArith(t *Term, out *[]*Term, seen map[int]bool) {
	if seen[t.id] || len(*out) > 40 {
		return
	}
	seen[t.id] = true
	if (t.op == "=" || t.op == "<" || t.op == "<=") && t.args[0].sort == SInt {
		*out = append(*out, t.args[0], t.args[1])
		return
	}
	for _, a := range t.args {
		collectArith(a, out, seen)
	}
}

// ---- goal-directed slicing (sound: it only drops hypotheses) ----

func termSymbols(t *Term, memo map[int]map[string]bool) map[string]bool {
	if m, ok := memo[t.id]; ok {
		return m
	}
	out := map[string]bool{}
	if t.op == "sym" {
		out[t.val] = true
	} else if _, ok := TS.funs[t.op]; ok && len(t.args) > 0 {
		out["fn:"+t.op] = true
	}
	for _, a := range t.args {
		for k := range termSymbols(a, memo) {
			out[k] = true
		}
	}
	memo[t.id] = out
	return out
}

func hubSymbol(s string) bool {
	if strings.HasPrefix(s, "H.cell:") || strings.HasPrefix(s, "H.iter:") || strings.HasPrefix(s, "H0.cell:") {
		return false
	}
	return strings.HasPrefix(s, "H0.") || strings.HasPrefix(s, "H.") || strings.HasPrefix(s, "alloc") || strings.HasPrefix(s, "fn:at.") || strings.HasPrefix(s, "fn:box.") || strings.HasPrefix(s, "fn:unbox.")
}

// buildSliced keeps the facts within `depth` symbol-sharing steps of the goal.
func buildSliced(j *Job, o *Obligation, timeoutMs int, depth int) string {
	memo := map[int]map[string]bool{}
	cone := map[string]bool{}
	for k := range termSymbols(o.Goal, memo) {
		if !hubSymbol(k) {
			cone[k] = true
		}
	}
	n := o.NFact
	if n > len(j.Facts) {
		n = len(j.Facts)
	}
	keep := make([]bool, n)
	gsk := goalSkolems(j, o)
	foreign := make([]bool, n)
	for i := 0; i < n; i++ {
		foreign[i] = foreignSkolem(j, j.Facts[i], gsk)
	}
	for d := 0; d < depth; d++ {
		added := map[string]bool{}
		for i := 0; i < n; i++ {
			if keep[i] || foreign[i] {
				continue
			}
			f := j.Facts[i]
			body := f
			if f.op == "=>" {
				body = f.args[1]
			}
			syms := termSymbols(body, memo)
			hit := false
			for k := range syms {
				if cone[k] {
					hit = true
					break
				}
			}
			if hit {
				keep[i] = true
				for k := range syms {
					if !hubSymbol(k) {
						added[k] = true
					}
				}
			}
		}
		if len(added) == 0 {
			break
		}
		for k := range added {
			cone[k] = true
		}
	}
	sc := NewScript()
	sc.Raw(preamble(timeoutMs))
	for i := 0; i < n; i++ {
		if keep[i] {
			sc.Assert(j.Facts[i])
		}
	}
	sc.Assert(And(o.PC, Not(o.Goal)))
	sc.Raw("(check-sat)")
	return sc.String()
}

// foreignSkolem: the fact mentions a skolem constant (introduced for the goal of one obligation) that does not occur
// in this goal. Such a fact is an instance made for another obligation; it cannot contribute here because that
// constant is unconstrained otherwise. Dropping it is sound (fewer hypotheses).
func foreignSkolem(j *Job, f *Term, goalSk map[string]bool) bool {
	if j.symMemo == nil {
		j.symMemo = map[int]map[string]bool{}
	}
	if j.skMemo == nil {
		j.skMemo = map[int][]string{}
	}
	sks, ok := j.skMemo[f.id]
	if !ok {
		for k := range termSymbols(f, j.symMemo) {
			if strings.HasPrefix(k, "sk.") {
				sks = append(sks, k)
			}
		}
		j.skMemo[f.id] = sks
	}
	for _, k := range sks {
		if !goalSk[k] {
			return true
		}
	}
	return false
}

func hasSkolem(j *Job, f *Term) bool {
	foreignSkolem(j, f, nil)
	return len(j.skMemo[f.id]) > 0
}

func goalSkolems(j *Job, o *Obligation) map[string]bool {
	if j.symMemo == nil {
		j.symMemo = map[int]map[string]bool{}
	}
	out := map[string]bool{}
	for _, t := range []*Term{o.Goal, o.PC} {
		for k := range termSymbols(t, j.symMemo) {
			if strings.HasPrefix(k, "sk.") {
				out[k] = true
			}
		}
	}
	return out
}

// opaqueCalendar turns the day-number function into an uninterpreted function (a weakening: `unsat` stays sound).
// Obligations that only need "the day number moved by k" then stop dragging the div/mod definition along.
func opaqueCalendar(script string) string {
	i := strings.Index(script, "(define-fun cal.dn ")
	if i < 0 {
		return script
	}
	j := strings.Index(script[i:], "\n")
	return script[:i] + "(declare-fun cal.dn (Int Int Int) Int)" + script[i+j:]
}
