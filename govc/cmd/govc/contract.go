package main

// Parser for the //@ contract files (comment-only, behind the verif build tag).

import (
	"fmt"
	"go/ast"
	"go/parser"
	"go/token"
	"os"
	"path/filepath"
	"regexp"
	"strconv"
	"strings"
)

type Clause struct {
	Kind string // requires, ensures, invariant, decreases, let
	Loop int    // loop ordinal (1-based) for invariant/decreases, else 0
	Name string // let: name
	Src  string
	Expr ast.Expr
	File string
	Line int
	Used bool
	Bind string // bind: ghost name
}

type ModLoc struct {
	Src  string
	Expr ast.Expr // X.f  or  X[*] (written as X.elems())
}

type Contract struct {
	Key      string // function key relative to package, e.g. (*time).Plus
	Pkg      string // package path
	Clauses  []*Clause
	Modifies []*ModLoc
	Inline   bool
	Trusted  bool
	Pure     bool
	NoFrame  bool
	CutsOnly bool // only the `before` cuts of this function are obligations; everything else is assumed
	File     string
	Line     int
	Bound    bool
	Replay   []string
	Lemma    bool
	Params   []specParam // lemma parameters
}

type SpecFunc struct {
	Name   string
	Pkg    string
	Params []specParam
	Ret    string
	Src    string
	Expr   ast.Expr
	Rec    bool
}

type specParam struct {
	Name string
	Type string
}

type ContractSet struct {
	byKey map[string]*Contract // pkgpath + "." + key
	specs map[string]*SpecFunc // pkgpath + "." + name  (also plain name for cross-package use)
	files []string
	tinvs map[string][]*Clause // pkgpath + "." + type name -> invariants over `self`
}

var clauseRe = regexp.MustCompile(`^(requires|ensures|defines|use|before|modifies|inline|trusted|pure|noframe|cutsonly|loop|let|func|spec|replay|type|lemma)\b\s*(.*)$`)

func loadContracts(repo string) (*ContractSet, error) {
	cs := &ContractSet{byKey: map[string]*Contract{}, specs: map[string]*SpecFunc{}, tinvs: map[string][]*Clause{}}
	err := filepath.Walk(repo, func(path string, info os.FileInfo, err error) error {
		if err != nil {
			return nil
		}
		if info.IsDir() {
			if strings.HasPrefix(info.Name(), ".") && path != repo {
				return filepath.SkipDir
			}
			return nil
		}
		if info.Name() != "contracts_verif.go" {
			return nil
		}
		cs.files = append(cs.files, path)
		return cs.parseFile(repo, path)
	})
	return cs, err
}

func (cs *ContractSet) parseFile(repo, path string) error {
	data, err := os.ReadFile(path)
	if err != nil {
		return err
	}
	rel, _ := filepath.Rel(repo, filepath.Dir(path))
	pkgPath := "github.com/jotaen/klog/" + filepath.ToSlash(rel)
	if rel == "." {
		pkgPath = "github.com/jotaen/klog"
	}
	var cur *Contract
	var last *string // continuation target
	var lastClause *Clause
	flush := func() error {
		if lastClause != nil {
			e, err := parser.ParseExpr(lastClause.Src)
			if err != nil {
				return fmt.Errorf("%s:%d: cannot parse %q: %v", path, lastClause.Line, lastClause.Src, err)
			}
			lastClause.Expr = e
			lastClause = nil
		}
		last = nil
		return nil
	}
	var pendingSpec *SpecFunc
	flushSpec := func() error {
		if pendingSpec != nil {
			if strings.TrimSpace(pendingSpec.Src) != "" {
				e, err := parser.ParseExpr(pendingSpec.Src)
				if err != nil {
					return fmt.Errorf("%s: cannot parse spec %s body %q: %v", path, pendingSpec.Name, pendingSpec.Src, err)
				}
				pendingSpec.Expr = e
			}
			cs.specs[pkgPath+"."+pendingSpec.Name] = pendingSpec
			if _, dup := cs.specs[pendingSpec.Name]; !dup {
				cs.specs[pendingSpec.Name] = pendingSpec
			}
			pendingSpec = nil
		}
		return nil
	}
	lines := strings.Split(string(data), "\n")
	for ln, raw := range lines {
		line := strings.TrimSpace(raw)
		if !strings.HasPrefix(line, "//@") {
			continue
		}
		body := strings.TrimSpace(strings.TrimPrefix(line, "//@"))
		if body == "" {
			continue
		}
		m := clauseRe.FindStringSubmatch(body)
		if m == nil {
			// continuation
			if last != nil {
				*last += " " + body
				continue
			}
			return fmt.Errorf("%s:%d: unrecognised contract line %q", path, ln+1, body)
		}
		if err := flush(); err != nil {
			return err
		}
		if err := flushSpec(); err != nil {
			return err
		}
		kw, rest := m[1], strings.TrimSpace(m[2])
		switch kw {
		case "func":
			cur = &Contract{Key: rest, Pkg: pkgPath, File: path, Line: ln + 1}
			if _, dup := cs.byKey[pkgPath+"."+rest]; dup {
				return fmt.Errorf("%s:%d: duplicate contract for %s", path, ln+1, rest)
			}
			cs.byKey[pkgPath+"."+rest] = cur
		case "lemma":
			// lemma name(p T, q U)
			i := strings.Index(rest, "(")
			j := strings.LastIndex(rest, ")")
			if i < 0 || j < i {
				return fmt.Errorf("%s:%d: malformed lemma header", path, ln+1)
			}
			name := strings.TrimSpace(rest[:i])
			cur = &Contract{Key: "lemma:" + name, Pkg: pkgPath, File: path, Line: ln + 1, Lemma: true}
			for _, p := range splitTop(rest[i+1 : j]) {
				fs := strings.Fields(p)
				if len(fs) != 2 {
					return fmt.Errorf("%s:%d: malformed lemma parameter %q", path, ln+1, p)
				}
				cur.Params = append(cur.Params, specParam{fs[0], fs[1]})
			}
			cs.byKey[pkgPath+"."+cur.Key] = cur
		case "type":
			parts := strings.SplitN(rest, " ", 3)
			if len(parts) < 3 || parts[1] != "invariant" {
				return fmt.Errorf("%s:%d: malformed type invariant", path, ln+1)
			}
			c := &Clause{Kind: "tinv", Name: parts[0], Src: parts[2], File: path, Line: ln + 1}
			cs.tinvs[pkgPath+"."+parts[0]] = append(cs.tinvs[pkgPath+"."+parts[0]], c)
			lastClause = c
			last = &c.Src
			cur = nil
		case "spec":
			// spec name(p T, q U) R = expr
			sf, err := parseSpecHeader(rest)
			if err != nil {
				return fmt.Errorf("%s:%d: %v", path, ln+1, err)
			}
			sf.Pkg = pkgPath
			pendingSpec = sf
			last = &sf.Src
		case "requires", "ensures", "defines", "use":
			if cur == nil {
				return fmt.Errorf("%s:%d: clause outside func", path, ln+1)
			}
			c := &Clause{Kind: kw, Src: rest, File: path, Line: ln + 1}
			cur.Clauses = append(cur.Clauses, c)
			lastClause = c
			last = &c.Src
		case "let":
			if cur == nil {
				return fmt.Errorf("%s:%d: clause outside func", path, ln+1)
			}
			i := strings.Index(rest, "=")
			if i < 0 {
				return fmt.Errorf("%s:%d: let without =", path, ln+1)
			}
			c := &Clause{Kind: "let", Name: strings.TrimSpace(rest[:i]), Src: strings.TrimSpace(rest[i+1:]), File: path, Line: ln + 1}
			cur.Clauses = append(cur.Clauses, c)
			lastClause = c
			last = &c.Src
		case "before":
			// before <callee> assert <expr>: a cut right before every call of the named function or method in this
			// function's own body: the expression is an obligation there and a known fact afterwards
			if cur == nil {
				return fmt.Errorf("%s:%d: clause outside func", path, ln+1)
			}
			bp := strings.SplitN(rest, " ", 3)
			if len(bp) < 3 || (bp[1] != "assert" && bp[1] != "bind") {
				return fmt.Errorf("%s:%d: malformed clause, expected: before <callee> assert <expr> | bind <name> = <expr>", path, ln+1)
			}
			bc := &Clause{Kind: "assert", Name: bp[0], Src: bp[2], File: path, Line: ln + 1}
			if bp[1] == "bind" {
				// before <callee> bind <name> = <expr>: names the value of an expression over the function's locals at that
				// point, for use in the postconditions (a ghost constant; meaningful on the paths through that call)
				i := strings.Index(bp[2], "=")
				if i < 0 {
					return fmt.Errorf("%s:%d: bind without =", path, ln+1)
				}
				bc.Kind = "bind"
				bc.Bind = strings.TrimSpace(bp[2][:i])
				bc.Src = strings.TrimSpace(bp[2][i+1:])
			}
			cur.Clauses = append(cur.Clauses, bc)
			lastClause = bc
			last = &bc.Src
		case "loop":
			if cur == nil {
				return fmt.Errorf("%s:%d: clause outside func", path, ln+1)
			}
			parts := strings.SplitN(rest, " ", 3)
			if len(parts) < 3 {
				return fmt.Errorf("%s:%d: malformed loop clause", path, ln+1)
			}
			k, err := strconv.Atoi(parts[0])
			if err != nil || (parts[1] != "invariant" && parts[1] != "decreases" && parts[1] != "let") {
				return fmt.Errorf("%s:%d: malformed loop clause", path, ln+1)
			}
			c := &Clause{Kind: parts[1], Loop: k, Src: parts[2], File: path, Line: ln + 1}
			if parts[1] == "let" {
				i := strings.Index(parts[2], "=")
				c.Name = strings.TrimSpace(parts[2][:i])
				c.Src = strings.TrimSpace(parts[2][i+1:])
			}
			cur.Clauses = append(cur.Clauses, c)
			lastClause = c
			last = &c.Src
		case "modifies":
			if cur == nil {
				return fmt.Errorf("%s:%d: clause outside func", path, ln+1)
			}
			for _, loc := range splitTop(rest) {
				e, err := parser.ParseExpr(loc)
				if err != nil {
					return fmt.Errorf("%s:%d: cannot parse modifies %q: %v", path, ln+1, loc, err)
				}
				cur.Modifies = append(cur.Modifies, &ModLoc{Src: loc, Expr: e})
			}
		case "inline":
			cur.Inline = true
		case "trusted":
			cur.Trusted = true
		case "pure":
			cur.Pure = true
		case "noframe":
			cur.NoFrame = true
		case "cutsonly":
			cur.CutsOnly = true
		case "replay":
			cur.Replay = append(cur.Replay, rest)
		}
	}
	if err := flush(); err != nil {
		return err
	}
	return flushSpec()
}

func splitTop(s string) []string {
	var out []string
	depth := 0
	start := 0
	for i, c := range s {
		switch c {
		case '(', '[':
			depth++
		case ')', ']':
			depth--
		case ',':
			if depth == 0 {
				out = append(out, strings.TrimSpace(s[start:i]))
				start = i + 1
			}
		}
	}
	if t := strings.TrimSpace(s[start:]); t != "" {
		out = append(out, t)
	}
	return out
}

var specHdrRe = regexp.MustCompile(`^(rec\s+)?(\w+)\((.*?)\)\s*([\w.\[\]*]+)\s*(?:=\s*(.*))?$`)

func parseSpecHeader(s string) (*SpecFunc, error) {
	m := specHdrRe.FindStringSubmatch(s)
	if m == nil {
		return nil, fmt.Errorf("malformed spec %q", s)
	}
	sf := &SpecFunc{Name: m[2], Ret: m[4], Src: m[5], Rec: m[1] != ""}
	for _, p := range splitTop(m[3]) {
		fs := strings.Fields(p)
		if len(fs) < 2 {
			return nil, fmt.Errorf("malformed spec param %q", p)
		}
		sf.Params = append(sf.Params, specParam{fs[0], strings.Join(fs[1:], " ")})
	}
	return sf, nil
}

func (c *Contract) clauses(kind string, loop int) []*Clause {
	var out []*Clause
	for _, cl := range c.Clauses {
		if cl.Loop != loop {
			continue
		}
		if cl.Kind == kind || (cl.Kind == "let") {
			out = append(out, cl)
		}
	}
	return out
}

func posOf(fset *token.FileSet, p token.Pos) string {
	if !p.IsValid() {
		return ""
	}
	pp := fset.Position(p)
	return fmt.Sprintf("%s:%d", pp.Filename, pp.Line)
}

// hasSpec: the contract states a pre/postcondition or frame (not just loop clauses), so calls go through it.
func (c *Contract) hasSpec() bool {
	if len(c.Modifies) > 0 || c.Trusted || c.Pure {
		return true
	}
	for _, cl := range c.Clauses {
		if cl.Loop == 0 && (cl.Kind == "requires" || cl.Kind == "ensures" || cl.Kind == "defines") {
			return true
		}
	}
	return false
}
