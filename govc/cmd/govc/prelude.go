package main

// Trusted contracts for functions outside the module (assumption groups A-LIB, A-STR, A-CODEC, A-CAL, A-FLOAT).

import (
	"math"
	"go/token"
	"go/types"
	"strings"

	"golang.org/x/tools/go/ssa"
)

type handler func(x *Exec, st *State, callee *ssa.Function, args []*Val, pos token.Pos) *Val
type invokeHandler func(x *Exec, st *State, recv *Val, args []*Val, pos token.Pos) *Val

type effSpec struct {
	name string
	sort *Sort
}

var prelude = map[string]handler{}
var preludeInvoke = map[string]invokeHandler{}
var preludeEffects = map[string][]effSpec{}

const (
	ghostWrites   = "ghost:writes"
	ghostLastPath = "ghost:lastpath"
	ghostLastData = "ghost:lastdata"
)

type specBuiltin func(ev *evaluator, args []*Val) *Val

var specBuiltins = map[string]specBuiltin{}

func preludeByPrefix(key string) handler {
	return nil
}

const maxIntS = "9223372036854775807"
const safeMinS = "-9223372036854775807"

var errT types.Type = types.Universe.Lookup("error").Type()

var errTagCache = map[string]*Term{}

func errTag(kind string) *Term {
	if t, ok := errTagCache[kind]; ok {
		return t
	}
	nt := types.NewNamed(types.NewTypeName(token.NoPos, nil, "errorString."+kind, nil), types.NewStruct(nil, nil), nil)
	t := IntLit(int64(TE.TagOf(types.NewPointer(nt))))
	errTagCache[kind] = t
	return t
}

func (x *Exec) freshError(st *State, kind string) *Term {
	return mkIface(errTag(kind), x.allocRef(st))
}

func tuple2(t types.Type, a, b *Val) *Val { return &Val{Typ: t, Tuple: []*Val{a, b}} }

func init() {
	// ---- errors ----
	prelude["errors.New"] = func(x *Exec, st *State, callee *ssa.Function, args []*Val, pos token.Pos) *Val {
		x.trusted["A-LIB"] = true
		msg := "dyn"
		if l, ok := literalOf(args[0].T); ok {
			msg = l
		}
		e := x.freshError(st, "errors")
		x.ctx.assumeGlobal(st, Eq(UF("err.msg", SStr, ifRef(e)), args[0].T))
		_ = msg
		return &Val{T: e, Typ: errT}
	}
	// ---- safemath ----
	prelude["github.com/jotaen/safemath/safemath.Add"] = func(x *Exec, st *State, callee *ssa.Function, args []*Val, pos token.Pos) *Val {
		x.trusted["A-LIB"] = true
		a, b := args[0].T, args[1].T
		sum := Add(a, b)
		lo, hi := IntLitStr(safeMinS), IntLitStr(maxIntS)
		ok := And(Le(lo, a), Le(lo, b), Le(lo, sum), Le(sum, hi))
		e := x.freshError(st, "safemath")
		return tuple2(callee.Signature.Results(), &Val{T: Ite(ok, sum, IntLit(0)), Typ: intT}, &Val{T: Ite(ok, nilIface, e), Typ: errT})
	}
	prelude["github.com/jotaen/safemath/safemath.Multiply"] = func(x *Exec, st *State, callee *ssa.Function, args []*Val, pos token.Pos) *Val {
		x.trusted["A-LIB"] = true
		a, b := args[0].T, args[1].T
		prod := Mul(a, b)
		lo, hi := IntLitStr(safeMinS), IntLitStr(maxIntS)
		ok := And(Le(lo, a), Le(lo, b), Le(lo, prod), Le(prod, hi))
		e := x.freshError(st, "safemath")
		return tuple2(callee.Signature.Results(), &Val{T: Ite(ok, prod, IntLit(0)), Typ: intT}, &Val{T: Ite(ok, nilIface, e), Typ: errT})
	}
	// ---- civil.Time ----
	prelude["cloud.google.com/go/civil.(Time).IsValid"] = func(x *Exec, st *State, callee *ssa.Function, args []*Val, pos token.Pos) *Val {
		x.trusted["A-CAL"] = true
		t := args[0]
		f := func(i int) *Term { return TE.Field(t.Typ, i, t.T) }
		h, m, s, ns := f(0), f(1), f(2), f(3)
		ok := And(Le(IntLit(0), h), Lt(h, IntLit(24)), Le(IntLit(0), m), Lt(m, IntLit(60)),
			Le(IntLit(0), s), Lt(s, IntLit(60)), Le(IntLit(0), ns), Lt(ns, IntLit(1000000000)))
		return &Val{T: ok, Typ: boolT}
	}
	// ---- file system (A-FS): the disk is ghost state that only os.WriteFile changes: a counter of writes, and the
	// path and data of the last write. Reads return unknown contents. ----
	prelude["os.WriteFile"] = func(x *Exec, st *State, callee *ssa.Function, args []*Val, pos token.Pos) *Val {
		x.trusted["A-FS"] = true
		n := x.ctx.hread(st, ghostWrites, SInt, IntLit(0))
		for _, g := range []string{ghostWrites, ghostLastPath, ghostLastData} {
			x.noteWrite(st, g, IntLit(0))
		}
		x.ctx.hwrite(st, ghostWrites, SInt, IntLit(0), Add(n, IntLit(1)))
		x.ctx.hwrite(st, ghostLastPath, SStr, IntLit(0), args[0].T)
		data := args[1]
		elemT := data.Typ.Underlying().(*types.Slice).Elem()
		arr := x.elemArr(st, elemT, slRef(data.T))
		x.ctx.hwrite(st, ghostLastData, SStr, IntLit(0), mkStr(arr, slOff(data.T), slLen(data.T)))
		ok := Fresh("os.writefile.ok", SBool)
		e := x.freshError(st, "os")
		return &Val{T: Ite(ok, nilIface, e), Typ: errT}
	}
	preludeEffects["os.WriteFile"] = []effSpec{{ghostWrites, SInt}, {ghostLastPath, SStr}, {ghostLastData, SStr}}
	// ---- strings ----
	prelude["strings.HasPrefix"] = func(x *Exec, st *State, callee *ssa.Function, args []*Val, pos token.Pos) *Val {
		x.trusted["A-STR"] = true
		return &Val{T: x.hasPrefix(st, args[0].T, args[1].T), Typ: boolT}
	}
	prelude["strings.HasSuffix"] = func(x *Exec, st *State, callee *ssa.Function, args []*Val, pos token.Pos) *Val {
		x.trusted["A-STR"] = true
		return &Val{T: x.hasSuffix(st, args[0].T, args[1].T), Typ: boolT}
	}
	prelude["strings.Repeat"] = func(x *Exec, st *State, callee *ssa.Function, args []*Val, pos token.Pos) *Val {
		x.trusted["A-STR"] = true
		s, n := args[0].T, args[1].T
		x.oblige(st, "repeat", Ge(n, IntLit(0)), pos, "strings.Repeat: negative count")
		if lit, ok := literalOf(s); ok {
			if k, ok := n.intVal(); ok && k >= 0 && k <= 8 {
				return &Val{T: StrLit(strings.Repeat(lit, int(k))), Typ: types.Typ[types.String]}
			}
		}
		r := UF("gs.repeat", SStr, s, n)
		x.ctx.assumeGlobal(st, Implies(UF("gs.ascii", SBool, s), UF("gs.ascii", SBool, r)))
		x.ctx.assumeGlobal(st, And(Eq(strLen(r), Mul(strLen(s), n)), Ge(strOff(r), IntLit(0)),
			Implies(Eq(n, IntLit(0)), Eq(strLen(r), IntLit(0)))))
		// characters: r[j] = s[j mod len(s)]
		j := BoundVar("j", SInt)
		x.ctx.assumeGlobal(st, Forall([]*Term{j}, Implies(And(Le(IntLit(0), j), Lt(j, strLen(r)), Gt(strLen(s), IntLit(0))),
			Eq(strAt(r, j), strAt(s, EMod(j, strLen(s))))), []*Term{strAt(r, j)}))
		return &Val{T: r, Typ: types.Typ[types.String]}
	}
	prelude["unicode/utf8.DecodeLastRuneInString"] = func(x *Exec, st *State, callee *ssa.Function, args []*Val, pos token.Pos) *Val {
		x.trusted["A-UTF8"] = true
		s := args[0].T
		size := UF("utf8.lastsize", SInt, s)
		r := UF("utf8.lastrune", SInt, s)
		x.ctx.assumeGlobal(st, And(Le(IntLit(0), size), Le(size, IntLit(4)), Le(size, strLen(s)),
			Eq(Eq(size, IntLit(0)), Eq(strLen(s), IntLit(0))), Le(IntLit(0), r), Le(r, IntLit(0x10FFFF))))
		return tuple2(callee.Signature.Results(), &Val{T: r, Typ: types.Typ[types.Rune]}, &Val{T: size, Typ: intT})
	}
	prelude["unicode/utf8.DecodeRuneInString"] = func(x *Exec, st *State, callee *ssa.Function, args []*Val, pos token.Pos) *Val {
		x.trusted["A-UTF8"] = true
		s := args[0].T
		w, c := utf8At(s, IntLit(0))
		empty := Eq(strLen(s), IntLit(0))
		b0 := strAt(s, IntLit(0))
		x.ctx.assumeGlobal(st, Implies(Not(empty), And(Le(IntLit(1), w), Le(w, IntLit(4)), Le(w, strLen(s)),
			Le(IntLit(0), c), Le(c, IntLit(0x10FFFF)),
			Implies(Lt(b0, IntLit(0x80)), And(Eq(w, IntLit(1)), Eq(c, b0))))))
		return tuple2(callee.Signature.Results(), &Val{T: Ite(empty, IntLit(0xFFFD), c), Typ: types.Typ[types.Rune]}, &Val{T: Ite(empty, IntLit(0), w), Typ: intT})
	}
	prelude["unicode/utf8.RuneCountInString"] = func(x *Exec, st *State, callee *ssa.Function, args []*Val, pos token.Pos) *Val {
		x.trusted["A-UTF8"] = true
		s := args[0].T
		if l, ok := literalOf(s); ok {
			return &Val{T: IntLit(int64(len([]rune(l)))), Typ: types.Typ[types.Int]}
		}
		cnt := UF("gs.runecount", SInt, s)
		x.ctx.assumeGlobal(st, And(Ge(cnt, IntLit(0)), Le(cnt, strLen(s)), Implies(Gt(strLen(s), IntLit(0)), Gt(cnt, IntLit(0))), Le(strLen(s), Mul(IntLit(4), cnt))))
		return &Val{T: cnt, Typ: types.Typ[types.Int]}
	}
	prelude["unicode/utf8.RuneStart"] = func(x *Exec, st *State, callee *ssa.Function, args []*Val, pos token.Pos) *Val {
		x.trusted["A-UTF8"] = true
		b := args[0].T
		// b&0xC0 != 0x80
		return &Val{T: Not(And(Le(IntLit(0x80), b), Lt(b, IntLit(0xC0)))), Typ: boolT}
	}
	// ---- math (A-FLOAT) ----
	// math.Log2 of a literal: folded with the very function the program calls (no model involved)
	prelude["math.Log2"] = func(x *Exec, st *State, callee *ssa.Function, args []*Val, pos token.Pos) *Val {
		if f, ok := realLitVal[args[0].T.id]; ok && f > 0 {
			return &Val{T: realLit(math.Log2(f)), Typ: types.Typ[types.Float64]}
		}
		return x.unmodelled(st, callee, args)
	}
	prelude["math.Ceil"] = func(x *Exec, st *State, callee *ssa.Function, args []*Val, pos token.Pos) *Val {
		if f, ok := realLitVal[args[0].T.id]; ok {
			return &Val{T: realLit(math.Ceil(f)), Typ: types.Typ[types.Float64]}
		}
		x.trusted["A-FLOAT"] = true
		r := args[0].T
		real := mkSort("Real")
		fl := TS.mk("to_int", "", SInt, r)
		isInt := TS.mk("is_int", "", SBool, r)
		c := Ite(isInt, fl, Add(fl, IntLit(1)))
		return &Val{T: TS.mk("to_real", "", real, c), Typ: types.Typ[types.Float64]}
	}
}

// hasPrefix(s, p)
func (x *Exec) hasPrefix(st *State, s, p *Term) *Term {
	if lit, ok := literalOf(p); ok {
		cs := []*Term{Ge(strLen(s), IntLit(int64(len(lit))))}
		for i := 0; i < len(lit); i++ {
			cs = append(cs, Eq(strAt(s, IntLit(int64(i))), IntLit(int64(lit[i]))))
		}
		return And(cs...)
	}
	r := UF("gs.hasprefix", SBool, s, p)
	key := [2]int{r.id, -2}
	if !x.typed[key] {
		x.typed[key] = true
		// A-UTF8: an ASCII prefix of n bytes is n characters
		cnt := UF("gs.runecount", SInt, s)
		x.ctx.assumeGlobal(st, Implies(And(r, UF("gs.ascii", SBool, p)), Ge(cnt, strLen(p))))
		j := BoundVar("j", SInt)
		x.ctx.assumeGlobal(st, Implies(r, And(Ge(strLen(s), strLen(p)),
			Forall([]*Term{j}, Implies(And(Le(IntLit(0), j), Lt(j, strLen(p))), Eq(strAt(s, j), strAt(p, j))), []*Term{strAt(p, j)}))))
		k := Fresh("pdiff", SInt)
		x.ctx.assumeGlobal(st, Implies(Not(r), Or(Lt(strLen(s), strLen(p)),
			And(Le(IntLit(0), k), Lt(k, strLen(p)), Neq(strAt(s, k), strAt(p, k))))))
	}
	return r
}

func (x *Exec) hasSuffix(st *State, s, p *Term) *Term {
	if lit, ok := literalOf(p); ok {
		n := int64(len(lit))
		cs := []*Term{Ge(strLen(s), IntLit(n))}
		for i := int64(0); i < n; i++ {
			cs = append(cs, Eq(strAt(s, Add(Sub(strLen(s), IntLit(n)), IntLit(i))), IntLit(int64(lit[i]))))
		}
		return And(cs...)
	}
	r := UF("gs.hassuffix", SBool, s, p)
	key := [2]int{r.id, -3}
	if !x.typed[key] {
		x.typed[key] = true
		d := Sub(strLen(s), strLen(p))
		j := BoundVar("j", SInt)
		x.ctx.assumeGlobal(st, Implies(r, And(Ge(strLen(s), strLen(p)),
			Forall([]*Term{j}, Implies(And(Le(IntLit(0), j), Lt(j, strLen(p))), Eq(strAt(s, Add(d, j)), strAt(p, j))), []*Term{strAt(p, j)}))))
		k := Fresh("sdiff", SInt)
		x.ctx.assumeGlobal(st, Implies(Not(r), Or(Lt(strLen(s), strLen(p)),
			And(Le(IntLit(0), k), Lt(k, strLen(p)), Neq(strAt(s, Add(d, k)), strAt(p, k))))))
	}
	return r
}
