package main

// Mapping of Go types to SMT sorts, datatype declarations, dynamic type tags.

import (
	"fmt"
	"go/types"
	"strings"
)

type structInfo struct {
	sort   *Sort
	ctor   string
	fields []string // accessor names
	fsorts []*Sort
	st     *types.Struct
	name   string
}

type TypeEnv struct {
	decls    []string // datatype declarations, in dependency order
	structs  map[string]*structInfo
	tags     map[string]int // dynamic type tag per concrete type string
	tagTypes []types.Type
	inprog   map[string]bool
}

var TE = &TypeEnv{structs: map[string]*structInfo{}, tags: map[string]int{}, inprog: map[string]bool{}}

const preludeDatatypes = `(declare-datatypes ((Str 0)) (((mkStr (s.arr (Array Int Int)) (s.off Int) (s.len Int)))))
(declare-datatypes ((Iface 0)) (((mkIface (i.tag Int) (i.ref Int)))))
(declare-datatypes ((Slice 0)) (((mkSlice (sl.ref Int) (sl.off Int) (sl.len Int)))))
`

func typeKey(t types.Type) string {
	return types.TypeString(t, func(p *types.Package) string { return p.Path() })
}

func shortTypeName(t types.Type) string {
	s := types.TypeString(t, func(p *types.Package) string { return p.Name() })
	return sanitize(strings.ReplaceAll(s, " ", ""))
}

// SortOf returns the SMT sort that represents values of Go type t.
func (te *TypeEnv) SortOf(t types.Type) *Sort {
	switch u := t.Underlying().(type) {
	case *types.Basic:
		switch {
		case u.Info()&types.IsBoolean != 0:
			return SBool
		case u.Info()&types.IsInteger != 0:
			return SInt
		case u.Info()&types.IsString != 0:
			return SStr
		case u.Kind() == types.UnsafePointer:
			return SInt
		case u.Kind() == types.UntypedNil:
			return SInt
		case u.Info()&types.IsFloat != 0:
			return mkSort("Real")
		}
	case *types.Pointer, *types.Map, *types.Chan, *types.Signature:
		return SInt
	case *types.Interface:
		return SIface
	case *types.Slice:
		return SSlice
	case *types.Struct:
		return te.structOf(t).sort
	case *types.Array:
		return arraySort(SInt, te.SortOf(u.Elem()))
	case *types.Tuple:
		// tuples are handled Go-side
		return SInt
	}
	panic(fmt.Sprintf("SortOf: unsupported type %s", t))
}

func (te *TypeEnv) structOf(t types.Type) *structInfo {
	st := t.Underlying().(*types.Struct)
	key := typeKey(t)
	if _, named := t.(*types.Named); !named {
		key = "anon:" + st.String()
	}
	if si, ok := te.structs[key]; ok {
		return si
	}
	if te.inprog[key] {
		panic("recursive struct value type " + key)
	}
	te.inprog[key] = true
	name := "S_" + shortTypeName(t)
	if _, named := t.(*types.Named); !named {
		name = fmt.Sprintf("S_anon%d", len(te.structs))
	}
	si := &structInfo{sort: mkSort(quoteSym(name)), ctor: "mk" + name, st: st, name: name}
	var fs []string
	for i := 0; i < st.NumFields(); i++ {
		f := st.Field(i)
		fsrt := te.SortOf(f.Type())
		acc := fmt.Sprintf("%s.%s", name, f.Name())
		if f.Name() == "_" || f.Name() == "" {
			acc = fmt.Sprintf("%s._%d", name, i)
		}
		si.fields = append(si.fields, acc)
		si.fsorts = append(si.fsorts, fsrt)
		fs = append(fs, fmt.Sprintf("(%s %s)", quoteSym(acc), fsrt.Name))
	}
	if st.NumFields() == 0 {
		te.decls = append(te.decls, fmt.Sprintf("(declare-datatypes ((%s 0)) (((%s))))", quoteSym(name), quoteSym(si.ctor)))
	} else {
		te.decls = append(te.decls, fmt.Sprintf("(declare-datatypes ((%s 0)) (((%s %s))))", quoteSym(name), quoteSym(si.ctor), strings.Join(fs, " ")))
	}
	te.structs[key] = si
	delete(te.inprog, key)
	return si
}

func (te *TypeEnv) MkStruct(t types.Type, fields []*Term) *Term {
	si := te.structOf(t)
	return Ctor(si.ctor, si.sort, fields...)
}

func (te *TypeEnv) Field(t types.Type, i int, v *Term) *Term {
	si := te.structOf(t)
	return Acc(si.fields[i], i, si.fsorts[i], v)
}

func (te *TypeEnv) UpdateField(t types.Type, i int, v, nv *Term) *Term {
	si := te.structOf(t)
	var fs []*Term
	for j := range si.fields {
		if j == i {
			fs = append(fs, nv)
		} else {
			fs = append(fs, te.Field(t, j, v))
		}
	}
	return Ctor(si.ctor, si.sort, fs...)
}

// TagOf returns the dynamic-type tag (>0) for a concrete type.
func (te *TypeEnv) TagOf(t types.Type) int {
	k := typeKey(t)
	if n, ok := te.tags[k]; ok {
		return n
	}
	n := len(te.tags) + 1
	te.tags[k] = n
	te.tagTypes = append(te.tagTypes, t)
	return n
}

// ---- Str / Slice / Iface helpers ----

func mkStr(arr, off, ln *Term) *Term { return Ctor("mkStr", SStr, arr, off, ln) }
func strArr(s *Term) *Term           { return Acc("s.arr", 0, arraySort(SInt, SInt), s) }
func strOff(s *Term) *Term           { return Acc("s.off", 1, SInt, s) }
func strLen(s *Term) *Term           { return Acc("s.len", 2, SInt, s) }
func strAt(s, i *Term) *Term         { return Select(strArr(s), Add(strOff(s), i)) }

var zeroArr = ConstArr(arraySort(SInt, SInt), IntLit(0))

func StrLit(s string) *Term {
	arr := zeroArr
	for i := 0; i < len(s); i++ {
		arr = Store(arr, IntLit(int64(i)), IntLit(int64(s[i])))
	}
	return mkStr(arr, IntLit(0), IntLit(int64(len(s))))
}

// strEqLit: s == literal, quantifier free.
func strEqLit(s *Term, lit string) *Term {
	cs := []*Term{Eq(strLen(s), IntLit(int64(len(lit))))}
	for i := 0; i < len(lit); i++ {
		cs = append(cs, Eq(strAt(s, IntLit(int64(i))), IntLit(int64(lit[i]))))
	}
	return And(cs...)
}

// literalOf recognises a term built by StrLit.
func literalOf(s *Term) (string, bool) {
	if s.op != "mkStr" {
		return "", false
	}
	n, ok := s.args[2].intVal()
	if !ok {
		return "", false
	}
	if o, ok := s.args[1].intVal(); !ok || o != 0 {
		return "", false
	}
	buf := make([]byte, n)
	have := make([]bool, n)
	arr := s.args[0]
	for arr.op == "store" {
		i, ok1 := arr.args[1].intVal()
		v, ok2 := arr.args[2].intVal()
		if !ok1 || !ok2 {
			return "", false
		}
		if i >= 0 && i < n && !have[i] {
			buf[i] = byte(v)
			have[i] = true
		}
		arr = arr.args[0]
	}
	if arr != zeroArr {
		return "", false
	}
	for _, h := range have {
		if !h {
			return "", false
		}
	}
	return string(buf), true
}

// strEq is Go's == on strings. Literal comparisons are quantifier-free; the general case
// uses the uninterpreted predicate str.eq with its defining axioms instantiated by the caller.
func strEq(a, b *Term) *Term {
	if l, ok := literalOf(b); ok {
		return strEqLit(a, l)
	}
	if l, ok := literalOf(a); ok {
		return strEqLit(b, l)
	}
	if a == b {
		return True
	}
	if a.id > b.id {
		a, b = b, a
	}
	return UF("gs.eq", SBool, a, b)
}

func mkSlice(ref, off, ln *Term) *Term { return Ctor("mkSlice", SSlice, ref, off, ln) }
func slRef(s *Term) *Term              { return Acc("sl.ref", 0, SInt, s) }
func slOff(s *Term) *Term              { return Acc("sl.off", 1, SInt, s) }
func slLen(s *Term) *Term              { return Acc("sl.len", 2, SInt, s) }

var nilSlice = mkSlice(IntLit(0), IntLit(0), IntLit(0))

func mkIface(tag, ref *Term) *Term { return Ctor("mkIface", SIface, tag, ref) }
func ifTag(i *Term) *Term          { return Acc("i.tag", 0, SInt, i) }
func ifRef(i *Term) *Term          { return Acc("i.ref", 1, SInt, i) }

var nilIface = mkIface(IntLit(0), IntLit(0))

// zeroValue returns the SMT zero value of a Go type.
func (te *TypeEnv) zeroValue(t types.Type) *Term {
	switch u := t.Underlying().(type) {
	case *types.Basic:
		switch {
		case u.Info()&types.IsBoolean != 0:
			return False
		case u.Info()&types.IsInteger != 0:
			return IntLit(0)
		case u.Info()&types.IsString != 0:
			return StrLit("")
		case u.Info()&types.IsFloat != 0:
			return TS.mk("const", "0.0", mkSort("Real"))
		}
		return IntLit(0)
	case *types.Pointer, *types.Map, *types.Chan, *types.Signature:
		return IntLit(0)
	case *types.Interface:
		return nilIface
	case *types.Slice:
		return nilSlice
	case *types.Struct:
		var fs []*Term
		for i := 0; i < u.NumFields(); i++ {
			fs = append(fs, te.zeroValue(u.Field(i).Type()))
		}
		return te.MkStruct(t, fs)
	case *types.Array:
		return ConstArr(te.SortOf(t), te.zeroValue(u.Elem()))
	}
	panic(fmt.Sprintf("zeroValue: unsupported type %s", t))
}

func isPointerToStruct(t types.Type) (*types.Struct, types.Type, bool) {
	if p, ok := t.Underlying().(*types.Pointer); ok {
		if st, ok := p.Elem().Underlying().(*types.Struct); ok {
			return st, p.Elem(), true
		}
	}
	return nil, nil, false
}

func isInterface(t types.Type) bool {
	_, ok := t.Underlying().(*types.Interface)
	return ok
}
